"""Kani contract harnesses on an add-only overlay of the scratch copy.

/verif/kani/<name>.rs is appended to /repo's src/<name>.rs in the scratch copy as a child module
(`#[cfg(kani)] pub mod verif_kani` + `#[cfg(gtker_wow_srp_verif)] mod verif_replay`), so harnesses see
private items without any visibility change.  No existing line is altered: checked byte for byte.
"""
import os, re, json, subprocess, time, glob, shutil
from workspace import VERIF, CACHE, ToolError, env_offline

KDIR = os.path.join(VERIF, "kani")
KANI_POOL = int(os.environ.get("VERIF_KANI_POOL", "3"))     # concurrent checks each get their own Kani target directory (built on first use)
TABLE = os.path.join(KDIR, "harnesses.json")


def load_table():
    return json.load(open(TABLE))


def overlay(sc):
    """Append harness modules. Returns list of (file, appended_bytes)."""
    done = []
    for f in sorted(glob.glob(os.path.join(KDIR, "*.rs"))):
        name = os.path.basename(f)
        rel = "src/" + name.replace("__", "/")
        dst = os.path.join(sc.repo, rel)
        if not os.path.exists(dst):
            raise ToolError("overlay target %s does not exist in the tree" % rel)
        orig = open(dst, "rb").read()
        add = open(f, "rb").read()
        open(dst, "wb").write(orig + b"\n" + add)
        # add-only check
        now = open(dst, "rb").read()
        if not now.startswith(orig):
            raise ToolError("overlay altered existing text of " + rel)
        done.append((rel, len(add)))
        if not hasattr(sc, "overlay_lines"):
            sc.overlay_lines = {}
        sc.overlay_lines[rel] = orig.count(b"\n") + 1
    # the crate forbids unsafe; harnesses use none. Cargo.lock is part of the tree.
    return done


class target_lock:
    """Exclusive use of a shared cargo target directory for one build-and-run.

    Cargo decides freshness by comparing source mtimes with the time of the last build in that target directory, and its fingerprint
    does not depend on where the package lives.  Two checks running at the same time (or a scratch copy whose files are older than the
    previous build) could therefore be handed each other's binary - a clean tree judged by a patched tree's test binary and vice versa
    (observed: DESIGN.md 11.6).  Under this lock the sources are stamped with the current time before cargo runs, so cargo always
    rebuilds the crate under test from exactly this scratch copy, and nobody else builds into the directory meanwhile."""
    def __init__(self, tdir, roots, pool=1):
        self.base = tdir
        self.tdir = tdir
        self.roots = roots
        self.pool = pool
    def __enter__(self):
        import fcntl
        os.makedirs(CACHE, exist_ok=True)
        # a small pool of target directories (<tdir>, <tdir>-p2, ...): take the first free one, else wait for the first
        names = [self.base] + ["%s-p%d" % (self.base, k) for k in range(2, self.pool + 1)]
        self.f = None
        for n in names:
            f = open(os.path.join(CACHE, n + ".lock"), "w")
            try:
                fcntl.flock(f, fcntl.LOCK_EX | fcntl.LOCK_NB)
                self.f, self.tdir = f, n
                break
            except OSError:
                f.close()
        if self.f is None:
            self.f = open(os.path.join(CACHE, names[0] + ".lock"), "w")
            fcntl.flock(self.f, fcntl.LOCK_EX)
            self.tdir = names[0]
        now = time.time()
        for root in self.roots:
            for d, dirs, files in os.walk(root):
                if "target" in dirs:
                    dirs.remove("target")
                for fn in files:
                    if fn.endswith((".rs", ".toml", ".lock")):
                        try:
                            os.utime(os.path.join(d, fn), (now, now))
                        except OSError:
                            pass
        return self
    def __exit__(self, *a):
        import fcntl
        fcntl.flock(self.f, fcntl.LOCK_UN)
        self.f.close()


def _roots(sc, cwd=None):
    r = [sc.repo]
    ext = os.path.join(sc.dir, "ext")
    if os.path.isdir(ext):
        r.append(ext)
    return r


def _env(sc):
    e = env_offline()
    e["CARGO_TARGET_DIR"] = os.path.join(CACHE, "target-kani")
    e["TMPDIR"] = sc.dir
    return e


_thread = re.compile(r"^Thread (\d+): ?(.*)$")


def parse_terse(out):
    """-> {harness: {status, time, failed_checks, covers}}"""
    res = {}
    cur = {}
    owner = {}
    lines = out.split("\n")
    t = None
    for ln in lines:
        m = _thread.match(ln)
        if m:
            t = int(m.group(1))
            rest = m.group(2)
            m2 = re.match(r"Checking harness (\S+?)\.\.\.", rest)
            if m2:
                owner[t] = m2.group(1)
                res.setdefault(m2.group(1), {"status": "UNKNOWN", "text": []})
            continue
        m2 = re.match(r"^Checking harness (\S+?)\.\.\.", ln)
        if m2:
            t = -1
            owner[t] = m2.group(1)
            res.setdefault(m2.group(1), {"status": "UNKNOWN", "text": []})
            continue
        if t is not None and t in owner:
            r = res[owner[t]]
            r["text"].append(ln)
            m3 = re.match(r"^VERIFICATION:- (\w+)", ln)
            if m3:
                r["status"] = m3.group(1)
            m4 = re.match(r"^Verification Time: ([0-9.]+)s", ln)
            if m4:
                r["time"] = float(m4.group(1))
            m5 = re.match(r"^ \*\* (\d+) of (\d+) cover properties satisfied", ln)
            if m5:
                r["covers"] = (int(m5.group(1)), int(m5.group(2)))
            m6 = re.match(r"^ \*\* (\d+) of (\d+) failed", ln)
            if m6:
                r["checks"] = (int(m6.group(1)), int(m6.group(2)))
    for r in res.values():
        full = "\n".join(x for x in r["text"] if x.strip())
        # a FAILED verdict is a refutation only if CBMC names a failed check; "CBMC failed" / out of memory / a crash is a tool limit
        if r["status"] == "FAILED" and ("Failed Checks:" not in full or "CBMC failed" in full or "run out of memory" in full):
            r["status"] = "TOOL-LIMIT (CBMC did not finish: %s)" % ("out of memory" if "memory" in full else "no failed check reported")
        if r["status"] == "FAILED":
            fc = [l for l in full.split("\n") if l.startswith("Failed Checks:")]
            if fc and all("unwinding assertion" in l for l in fc):
                # the loop bound of the harness is too small for this code: says nothing about the property
                r["status"] = "TOOL-LIMIT (only unwinding assertions failed: the harness's loop bound does not cover this code)"
        r["text"] = full[-3000:]
    return res


def fq_name(h):
    """fully qualified harness name (Kani's --harness matches substrings unless --exact is given)"""
    if h.get("fq"):
        return h["fq"]
    if h.get("crate") == "ext":
        return "harnesses::" + h["name"]
    mod = h["file"][:-3].replace("__", "::")
    if mod.endswith("::mod"):
        mod = mod[:-5]
    return mod + "::verif_kani::" + h["name"]


def run_group(sc, names, stubbing, jobs, timeout, log, cwd=None, tdir="target-kani"):
    cmd = ["cargo", "kani", "--exact"]
    for n in names:
        cmd += ["--harness", n]
    cmd += ["--output-format=terse"]
    if len(names) > 1:
        cmd += ["-j", str(min(jobs, len(names)))]
    if stubbing:
        cmd += ["-Z", "stubbing"]
    t0 = time.time()
    import signal
    env = _env(sc)
    env["CARGO_TARGET_DIR"] = os.path.join(CACHE, tdir)
    with target_lock(tdir, _roots(sc), pool=KANI_POOL) as lk:
        t0 = time.time()
        env["CARGO_TARGET_DIR"] = os.path.join(CACHE, lk.tdir)
        proc = subprocess.Popen(cmd, cwd=cwd or sc.repo, env=env, stdout=subprocess.PIPE, stderr=subprocess.STDOUT, text=True, start_new_session=True)
        try:
            out, _ = proc.communicate(timeout=timeout)
            timed_out = False
        except subprocess.TimeoutExpired:
            timed_out = True
            try:
                os.killpg(proc.pid, signal.SIGKILL)
            except Exception:
                pass
            out, _ = proc.communicate()
    log.setdefault("kani_cmds", []).append(" ".join(cmd))
    log["kani_s"] = round(log.get("kani_s", 0) + time.time() - t0, 1)
    if "error: could not compile" in out or "error[E" in out:
        raise ToolError("Kani could not compile the overlay (item renamed or removed?):\n" + "\n".join(l for l in out.split("\n") if "error" in l)[:2000])
    return parse_terse(out), timed_out, out


def _playback_tests(sc, name, stubbing, timeout, cwd, tdir):
    cmd = ["cargo", "kani", "--exact", "--harness", name, "--output-format=terse", "-Z", "concrete-playback", "--concrete-playback=print"]
    if stubbing:
        cmd += ["-Z", "stubbing"]
    import signal
    env = _env(sc)
    env["CARGO_TARGET_DIR"] = os.path.join(CACHE, tdir)
    with target_lock(tdir, _roots(sc), pool=KANI_POOL) as lk:
        env["CARGO_TARGET_DIR"] = os.path.join(CACHE, lk.tdir)
        proc = subprocess.Popen(cmd, cwd=cwd or sc.repo, env=env, stdout=subprocess.PIPE, stderr=subprocess.STDOUT, text=True, start_new_session=True)
        try:
            stdout, _ = proc.communicate(timeout=timeout)
        except subprocess.TimeoutExpired:
            # kill the whole group: cbmc is a grandchild and would otherwise keep running
            try:
                os.killpg(proc.pid, signal.SIGKILL)
            except Exception:
                pass
            proc.communicate()
            return []
    class _P: pass
    p = _P(); p.stdout = stdout
    tests = []      # (kind, message, vals)
    kind = msg = None
    vals = None
    for ln in p.stdout.split("\n"):
        m0 = re.match(r"^/// Check for `([^`]*)`: ?(.*)$", ln)
        if m0:
            kind, msg = m0.group(1), m0.group(2)
        if "let concrete_vals" in ln:
            vals = []
            continue
        if vals is not None:
            m = re.match(r"^\s*vec!\[([0-9, ]*)\],?\s*$", ln)
            if m:
                vals.append([int(x) for x in m.group(1).split(",") if x.strip()])
            elif "];" in ln:
                tests.append((kind, msg or "", vals)); vals = None; kind = msg = None
    return tests


def playback(sc, name, stubbing, timeout=420, cwd=None, tdir="target-kani", has_cex=False):
    """concrete values (one list per kani::any() call, in call order) that make the harness fail, or None"""
    for k, m, v in _playback_tests(sc, name, stubbing, timeout, cwd, tdir):
        if k != "cover":
            return v
    if has_cex:
        # stubbed harnesses: Kani prints playback only for cover properties; the twin harness <name>_cex covers the negated contract
        for k, m, v in _playback_tests(sc, name + "_cex", stubbing, timeout, cwd, tdir):
            if k == "cover" and "counterexample" in m:
                return v
    return None


def native_replay(sc, test, input_hex, log):
    """Run the native replay test (compiled from the same overlay under cfg(gtker_wow_srp_verif))."""
    env = env_offline()
    env["CARGO_TARGET_DIR"] = os.path.join(CACHE, "target-replay")
    env["RUSTFLAGS"] = "--cfg gtker_wow_srp_verif"
    env["VERIF_REPLAY_INPUT"] = input_hex
    cmd = ["cargo", "test", "--offline", "--lib", "--features", "matrix-card", test, "--", "--nocapture", "--test-threads", "1"]
    with target_lock("target-replay", [sc.repo]):
        p = subprocess.run(cmd, cwd=sc.repo, env=env, stdout=subprocess.PIPE, stderr=subprocess.STDOUT, text=True, timeout=900)
    out = p.stdout
    lines = [l[l.index("REPLAY"):] for l in out.split("\n") if "REPLAY" in l]
    return {"cmd": "VERIF_REPLAY_INPUT=%s RUSTFLAGS='--cfg gtker_wow_srp_verif' %s" % (input_hex, " ".join(cmd)),
            "exit": p.returncode, "lines": lines, "reproduced": any("REPLAY-FAIL" in l for l in lines) or ("panicked" in out and p.returncode != 0),
            "tail": out[-1500:], "panics": "\n".join(l for l in out.split("\n") if "panicked at" in l)[:2000]}


def run_harnesses(res, cfg, sc, tier, overlay_done=False):
    table = load_table()
    want = []
    demoted = set(d["fn"] for d in getattr(res, "demoted", []))
    for h in table:
        if res.pid not in h["props"]:
            continue
        t = h.get("tier", "quick")
        changed = getattr(res, "changed_fns", set())
        if t == "quick" or (tier == "thorough" and t != "never") or ((demoted | changed) & set(h.get("covers", []))):
            want.append(h)
        elif t in ("changed", "thorough", "fallback"):
            res.trusted.append("not re-run in the quick tier (text of the covered function(s) unchanged since the committed baseline): Kani harness %s - %s" % (h["name"], h.get("contract", "")))
    # functions already refuted by a native search on this run: their fallback harnesses add nothing
    refuted = set()
    for o in res.obligations:
        if o.get("engine") == "native-search" and o.get("status") == "failed":
            refuted |= set(o.get("covers") or [])
    searched_ok = set()
    for o in res.obligations:
        if o.get("engine") == "native-search" and o.get("status") in ("bounded", "discharged"):
            searched_ok |= set(o.get("covers") or [])
    keep = []
    for h in want:
        t = h.get("tier", "quick")
        cov = set(h.get("covers", []))
        touched = cov & (demoted | getattr(res, "changed_fns", set()))
        if h.get("bounded") and t != "quick" and tier != "thorough" and touched and touched <= searched_ok:
            # a bounded harness next to a bounded native search of the same functions adds wall time (10+ min), not strength
            res.trusted.append("not run below the thorough tier (bounded, and the changed function(s) it covers passed a native search on this run): Kani harness %s - %s" % (h["name"], h.get("contract", "")))
            continue
        if t in ("fallback", "changed", "thorough") and tier != "thorough" and cov and (cov & (demoted | getattr(res, "changed_fns", set()))) and (cov & (demoted | getattr(res, "changed_fns", set()))) <= refuted:
            res.assumptions.append("Kani harness %s skipped: the changed function(s) it covers are already refuted by a native search on this run" % h["name"])
            continue
        keep.append(h)
    want = keep
    if not want:
        return False
    if not overlay_done:
        ov = overlay(sc)
        res.log["kani_overlay"] = ov
    # group by stubbing flag; heavy harnesses run alone in parallel groups via -j
    jobs = int(os.environ.get("VERIF_JOBS", "8"))
    results = {}
    if any(h.get("crate") == "ext" for h in want):
        ext = os.path.join(sc.dir, "ext")
        shutil.copytree(os.path.join(KDIR, "ext"), ext)
        shutil.copy(os.path.join(sc.repo, "Cargo.lock"), os.path.join(ext, "Cargo.lock"))
    for crate in ("", "ext"):
        for stub in (False, True):
            grp = [h for h in want if bool(h.get("stubbing")) == stub and h.get("crate", "") == crate]
            if not grp:
                continue
            tmo = max(h.get("timeout", 600) for h in grp) + 120
            cwd = os.path.join(sc.dir, "ext") if crate == "ext" else None
            tdir = "target-kani-ext" if crate == "ext" else "target-kani"
            # batches: one cargo-kani invocation with many harnesses keeps every goto binary in memory (measured: kani-driver itself
            # grew to 51 GB with 25 harnesses and was OOM-killed)
            bs = 6 if stub else 10
            for b0 in range(0, len(grp), bs):
                batch = grp[b0:b0 + bs]
                tmo = max(h.get("timeout", 600) for h in batch) + 120
                r, timed_out, raw = run_group(sc, [fq_name(h) for h in batch], stub, min(jobs, bs), tmo, res.log, cwd=cwd, tdir=tdir)
                for h in batch:
                    full = [k for k in r if k.endswith("::" + h["name"])]
                    results[h["name"]] = r[full[0]] if full else {"status": "TIMEOUT" if timed_out else "MISSING", "text": raw[-1500:]}
    res.log["kani_cmd"] = " ; ".join(res.log.get("kani_cmds", []))
    have_cex = {}
    for h in want:
        r = results[h["name"]]
        oid = "kani:" + h["name"]
        o = {"id": oid, "engine": "kani", "text": h.get("contract", ""), "where": "kani/%s" % h.get("file", ""), "kani_time_s": r.get("time"), "covers": h.get("covers", [])}
        st = r["status"]
        cov = r.get("covers")
        if st == "SUCCESSFUL":
            if cov and cov[0] < cov[1]:
                o["status"] = "undecided"
                res.undecided.append("vacuity guard: harness %s has unsatisfied cover properties (%d of %d)" % (h["name"], cov[0], cov[1]))
            elif h.get("bounded"):
                o["status"] = "bounded"; o["bound"] = h["bounded"]
            else:
                o["status"] = "discharged"
        elif st == "FAILED":
            o["status"] = "failed"
            o["verifier_output"] = r["text"]
            donor = have_cex.get(h.get("function", h["name"]))
            if donor is not None and donor.get("found_input") is False and donor.get("no_playback"):
                # playback for this function was already attempted on this run and gave nothing (timeout): do not pay for it again
                o["replay"] = {"harness": h["name"], "test": h.get("replay_test"), "concrete_values": None, "found_input": False,
                               "note": "playback not attempted: an earlier playback for the same function on this run produced no values"}
                res.obligations.append(o)
                continue
            if donor is not None:
                # a counterexample for the same function under contract was already extracted on this run: do not pay for another playback
                rp = dict(donor); rp["borrowed_from"] = donor.get("harness"); rp["harness"] = h["name"]
                o["replay"] = rp
                res.obligations.append(o)
                continue
            vals = playback(sc, fq_name(h), bool(h.get("stubbing")), cwd=(os.path.join(sc.dir, "ext") if h.get("crate") == "ext" else None),
                            tdir=("target-kani-ext" if h.get("crate") == "ext" else "target-kani"), has_cex=bool(h.get("cex")))
            rp = {"harness": h["name"], "test": h.get("replay_test"), "concrete_values": vals, "found_input": False}
            if vals is not None:
                flat = [b for v in vals for b in v]
                rp["input_hex"] = "".join("%02x" % b for b in flat)
                if h.get("replay_test"):
                    nr = native_replay(sc, h["replay_test"], rp["input_hex"], res.log)
                    rp.update(nr)
                    rp["found_input"] = bool(nr["reproduced"])
                else:
                    rp["found_input"] = True
                    rp["note"] = "counterexample produced by CBMC on the real function (values in the order of the harness's kani::any() calls); no native replay driver for this harness"
            o["replay"] = rp
            if rp.get("found_input"):
                have_cex[h.get("function", h["name"])] = rp
            elif vals is None:
                have_cex.setdefault(h.get("function", h["name"]), {"found_input": False, "no_playback": True})
        else:
            o["status"] = "undecided"
            res.undecided.append("Kani harness %s: %s" % (h["name"], st))
            o["verifier_output"] = r.get("text", "")
        res.obligations.append(o)
        if h.get("assumes"):
            res.trusted += h["assumes"]
    res.functions.setdefault("kani", [])
    res.functions["kani"] += sorted(set(h.get("function", "") for h in want))
    return True


def _panic_in_real_code(sc, out):
    """location 'src/x.rs:LINE' of a panic raised in the crate's own text (not in the appended overlay, not in a dependency), or None"""
    for m in re.finditer(r"panicked at (src/[^:\s]+):(\d+):\d+", out):
        rel, line = m.group(1), int(m.group(2))
        n = getattr(sc, "overlay_lines", {}).get(rel)
        if n is None:
            # a file without overlay: all of it is the crate's own text
            if os.path.exists(os.path.join(sc.repo, rel)):
                return "%s:%d" % (rel, line)
            continue
        if line <= n:
            return "%s:%d" % (rel, line)
    return None


def run_searches(res, cfg, sc, tier, overlay_done):
    """Bounded native searches (labelled bounded, never counted as proved) for functions outside both verifiers' reach."""
    path = os.path.join(KDIR, "searches.json")
    if not os.path.exists(path):
        return overlay_done
    demoted = set(d["fn"] for d in getattr(res, "demoted", []))
    changed = getattr(res, "changed_fns", set())
    want = []
    for h in json.load(open(path)):
        if res.pid not in h["props"]:
            continue
        t = h.get("tier", "quick")
        if t == "quick" or tier == "thorough" or ((demoted | changed) & set(h.get("covers", []))):
            want.append(h)
    if not want:
        return overlay_done
    if not overlay_done:
        overlay(sc)
        overlay_done = True
    for h in want:
        env_count = {"VERIF_SEARCH_COUNT": "1000000" if tier == "thorough" else "10000", "VERIF_SEED": str(res.seed)}
        os.environ.update(env_count)
        t0 = time.time()
        nr = native_replay(sc, h["test"], "", res.log)
        oid = "search:" + h["name"]
        o = {"id": oid, "engine": "native-search", "text": h.get("contract", ""), "where": "kani/searches.json", "covers": h.get("covers", []), "bound": h.get("bound", ""),
             "search_s": round(time.time() - t0, 1)}
        fails = [l for l in nr["lines"] if l.startswith("REPLAY-FAIL")]
        stats = [l for l in nr["lines"] if l.startswith("REPLAY-STATS")]
        if fails:
            o["status"] = "failed"
            o["verifier_output"] = "\n".join(nr["lines"])
            m = re.search(r"input=([0-9a-f]+)", fails[0])
            o["replay"] = {"kind": "native", "test": h["test"], "input_hex": m.group(1) if m else "", "found_input": True, "lines": nr["lines"], "cmd": nr["cmd"]}
        elif stats:
            o["status"] = "discharged" if h.get("exhaustive") else "bounded"
            o["stats"] = stats[0]
        elif _panic_in_real_code(sc, nr.get("panics", "")):
            # the code under test panicked on an input of the search (all inputs are inside the functions' documented domains)
            loc = _panic_in_real_code(sc, nr.get("panics", ""))
            o["status"] = "failed"
            o["verifier_output"] = "the crate's own code panicked during the search at %s\n%s" % (loc, nr["tail"][-1200:])
            o["replay"] = {"kind": "native", "test": h["test"], "input_hex": "", "found_input": True, "lines": ["REPLAY-FAIL %s panic at %s" % (h["name"], loc)], "cmd": nr["cmd"]}
        else:
            o["status"] = "undecided"
            res.undecided.append("native search %s did not run to completion: %s" % (h["name"], nr["tail"][-300:]))
        res.obligations.append(o)
    res.functions.setdefault("native_search", [])
    res.functions["native_search"] += [h["name"] for h in want]
    return overlay_done


def warm(sc, log):
    """setup: build the Kani dependency cache by compiling the overlay once."""
    overlay(sc)
    cmd = ["cargo", "kani", "--exact", "--harness", "key::verif_kani::c04_from_le_bytes", "--output-format=terse"]
    t0 = time.time()
    with target_lock("target-kani", [sc.repo]):
        p = subprocess.run(cmd, cwd=sc.repo, env=_env(sc), stdout=subprocess.PIPE, stderr=subprocess.STDOUT, text=True, timeout=1800)
    print("kani warm-up %.1fs rc=%d" % (time.time() - t0, p.returncode))
