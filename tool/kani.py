"""Kani contract harnesses on an add-only overlay of the scratch copy (filled in below)."""
from workspace import ToolError


def run_harnesses(res, cfg, sc, tier):
    raise ToolError("kani runner not built yet")
