"""C19: build the srp-fast-math rendering of src/bigint.rs by evaluating its #[cfg(feature = ...)] attributes on the raw text
(rug cannot be compiled offline - gmp-mpfr-sys needs m4 - so rustc cannot expand this configuration).

What this drops: every item / block statement whose cfg predicate is false under the chosen feature set, and the cfg attribute
itself where the predicate is true.  Nothing else is rewritten.  Grammar accepted: feature = "x", all(..), any(..), not(..).
"""
import re
import rlex


class CfgError(Exception):
    pass


def _eval(toks, i, feats):
    """parse a cfg predicate starting at toks[i]; return (value, next_index)"""
    t = toks[i]
    if t.kind == "id" and t.text == "feature":
        if toks[i + 1].text != "=" or toks[i + 2].kind != "str":
            raise CfgError("bad feature predicate")
        return (toks[i + 2].text.strip('"') in feats), i + 3
    if t.kind == "id" and t.text in ("all", "any", "not") and toks[i + 1].text == "(":
        j = i + 2
        vals = []
        while toks[j].text != ")":
            v, j = _eval(toks, j, feats)
            vals.append(v)
            if toks[j].text == ",":
                j += 1
        j += 1
        if t.text == "all":
            return all(vals), j
        if t.text == "any":
            return any(vals), j
        if len(vals) != 1:
            raise CfgError("not() takes one argument")
        return (not vals[0]), j
    if t.kind == "id" and t.text == "test":
        return False, i + 1
    raise CfgError("unsupported cfg predicate at %r" % t.text)


def cfg_eval(src, feats):
    toks = rlex.lex(src)
    cuts = []       # (start, end) byte ranges to delete
    log = []
    i = 0
    n = len(toks)
    while i < n:
        t = toks[i]
        if t.kind == "punct" and t.text == "#" and i + 3 < n and toks[i + 1].text == "[" and toks[i + 2].text == "cfg" and toks[i + 3].text == "(":
            close = rlex.match_close(toks, i + 1)
            val, _ = _eval(toks, i + 4, feats)
            attr = (t.start, toks[close].end)
            # extent of the annotated thing
            j = close + 1
            # further attributes / docs on the same item
            k = j
            while k < n and (toks[k].kind == "doc" or (toks[k].text == "#" and toks[k + 1].text == "[")):
                k = rlex.match_close(toks, k + 1) + 1 if toks[k].kind != "doc" else k + 1
            if toks[k].kind == "punct" and toks[k].text == "{":
                end = rlex.match_close(toks, k)
            else:
                m = k
                end = None
                while m < n:
                    if toks[m].kind == "punct":
                        if toks[m].text == "{":
                            end = rlex.match_close(toks, m); break
                        if toks[m].text in ("(", "["):
                            m = rlex.match_close(toks, m)
                        elif toks[m].text == ";":
                            end = m; break
                    m += 1
                if end is None:
                    raise CfgError("cannot find the end of a cfg-annotated item")
            if val:
                cuts.append(attr)
                log.append("kept   " + " ".join(src[attr[0]:attr[1]].split()))
                i = close + 1
            else:
                cuts.append((t.start, toks[end].end))
                log.append("dropped " + " ".join(src[attr[0]:attr[1]].split()) + "  " + " ".join(src[toks[k].start:toks[end].end].split())[:80])
                i = end + 1
            continue
        i += 1
    out = []
    pos = 0
    for s, e in sorted(cuts):
        if s < pos:
            continue
        out.append(src[pos:s]); pos = e
    out.append(src[pos:])
    return "".join(out), log


def splice_bigint(expanded, raw_bigint, feats=("srp-fast-math", "srp-default-math")):
    """replace `mod bigint { ... }` of the expanded crate by the cfg-evaluated raw file under the given features"""
    text, log = cfg_eval(raw_bigint, set(feats))
    toks, items = rlex.parse_crate(expanded)
    for it in items:
        if it.kind == "mod" and it.name == "bigint":
            new = expanded[:it.head_start] + "pub(crate) mod bigint {\n" + text + "\n}" + expanded[it.end:]
            return new, log
    raise CfgError("mod bigint not found in the expanded crate")
