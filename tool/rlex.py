"""Minimal Rust lexer + item splitter (stdlib only).

Used on rustc's `-Zunpretty=expanded` rendering of /repo. It does not try to
understand Rust; it finds token boundaries (so that braces inside strings,
chars and comments are not counted), item boundaries, `impl`/`mod` nesting and
function headers/bodies.  Everything else is carried as opaque text.
"""
import re

class Tok:
    __slots__ = ("kind", "text", "start", "end")
    def __init__(self, kind, text, start, end):
        self.kind, self.text, self.start, self.end = kind, text, start, end
    def __repr__(self):
        return "Tok(%s,%r)" % (self.kind, self.text)

_ident = re.compile(r"[A-Za-z_][A-Za-z0-9_]*")
_num = re.compile(r"[0-9][0-9A-Za-z_]*(\.[0-9][0-9A-Za-z_]*)?")
_ws = re.compile(r"\s+")
_PUNCT3 = ("<<=", ">>=", "...", "..=")
_PUNCT2 = ("::", "->", "=>", "==", "!=", "<=", ">=", "&&", "||", "+=", "-=", "*=", "/=", "%=", "^=", "&=", "|=", "<<", ">>", "..")


def lex(src, keep_comments=False):
    """Return list of Tok. kinds: id, num, str, char, life, punct, doc, comment."""
    toks = []
    i, n = 0, len(src)
    while i < n:
        c = src[i]
        m = _ws.match(src, i)
        if m:
            i = m.end()
            continue
        if src.startswith("//", i):
            j = src.find("\n", i)
            if j < 0:
                j = n
            text = src[i:j]
            if text.startswith("///") and not text.startswith("////") or text.startswith("//!"):
                toks.append(Tok("doc", text, i, j))
            elif keep_comments:
                toks.append(Tok("comment", text, i, j))
            i = j
            continue
        if src.startswith("/*", i):
            depth, j = 1, i + 2
            while j < n and depth:
                if src.startswith("/*", j):
                    depth += 1; j += 2
                elif src.startswith("*/", j):
                    depth -= 1; j += 2
                else:
                    j += 1
            text = src[i:j]
            if text.startswith("/**") and not text.startswith("/***") and len(text) > 4 or text.startswith("/*!"):
                toks.append(Tok("doc", text, i, j))
            elif keep_comments:
                toks.append(Tok("comment", text, i, j))
            i = j
            continue
        # raw strings / byte strings
        m = re.match(r"(b|c)?r(#*)\"", src[i:i + 40])
        if m:
            hashes = m.group(2)
            close = '"' + hashes
            j = src.find(close, i + m.end())
            j = j + len(close)
            toks.append(Tok("str", src[i:j], i, j)); i = j
            continue
        if c == '"' or (c in "bc" and i + 1 < n and src[i + 1] == '"'):
            j = i + (2 if c != '"' else 1)
            while j < n and src[j] != '"':
                j += 2 if src[j] == "\\" else 1
            j += 1
            toks.append(Tok("str", src[i:j], i, j)); i = j
            continue
        if c == "'" or (c == "b" and i + 1 < n and src[i + 1] == "'"):
            k = i + (1 if c == "'" else 2)
            # char literal or lifetime
            if c == "'" :
                m2 = _ident.match(src, k)
                if m2 and not (m2.end() < n and src[m2.end()] == "'"):
                    toks.append(Tok("life", src[i:m2.end()], i, m2.end())); i = m2.end()
                    continue
            j = k
            if src[j] == "\\":
                j += 2
                while src[j] != "'":
                    j += 1
            else:
                j += 1
                while src[j] != "'":  # multi-byte char already one python char
                    j += 1
            j += 1
            toks.append(Tok("char", src[i:j], i, j)); i = j
            continue
        m = _ident.match(src, i)
        if m:
            toks.append(Tok("id", m.group(0), i, m.end())); i = m.end()
            continue
        m = _num.match(src, i)
        if m:
            toks.append(Tok("num", m.group(0), i, m.end())); i = m.end()
            continue
        for plist, ln in ((_PUNCT3, 3), (_PUNCT2, 2)):
            if src[i:i + ln] in plist:
                toks.append(Tok("punct", src[i:i + ln], i, i + ln)); i += ln
                break
        else:
            toks.append(Tok("punct", c, i, i + 1)); i += 1
    return toks


def token_texts(src):
    """Token text sequence with docs/comments dropped and multi-char puncts split
    to single chars (so that `>>` vs `> >` formatting cannot matter)."""
    out = []
    for t in lex(src):
        if t.kind == "doc":
            continue
        if t.kind == "punct":
            out.extend(t.text)
        else:
            out.append(t.text)
    return out


OPEN = {"(": ")", "[": "]", "{": "}"}
CLOSE = {")", "]", "}"}


def match_close(toks, i):
    """toks[i] is an opening bracket; return index of its closing partner."""
    depth = 0
    j = i
    while j < len(toks):
        t = toks[j]
        if t.kind == "punct":
            if t.text in OPEN:
                depth += 1
            elif t.text in CLOSE:
                depth -= 1
                if depth == 0:
                    return j
        j += 1
    raise ValueError("unbalanced bracket at token %d (%r)" % (i, toks[i]))


class Item:
    """One item of a module or impl block."""
    def __init__(self):
        self.kind = None        # fn, impl, mod, struct, enum, const, static, use, type, trait, macro, other
        self.name = None        # ident (fn/struct/..) or normalized impl header
        self.attrs = []         # list of (text, start, end) for #[...] and doc comments
        self.start = self.end = 0   # byte span incl. attrs
        self.head_start = 0     # byte offset after attrs (start of vis/keyword)
        self.body_open = None   # byte offset of '{' of body (fn/impl/mod)
        self.body_close = None  # byte offset of matching '}'
        self.children = []      # for impl/mod
        self.path = None        # filled by assign_paths
        self.impl_trait = None
        self.impl_type = None
        self.sig_toks = None

    def __repr__(self):
        return "Item(%s %s)" % (self.kind, self.path or self.name)


_QUALS = {"pub", "const", "async", "unsafe", "extern", "default", "crate", "in", "super", "self"}
_SEMI_KINDS = {"use", "static", "type"}


def parse_items(src, toks, lo, hi):
    """Parse toks[lo:hi] as a sequence of items."""
    items = []
    i = lo
    while i < hi:
        it = Item()
        it.start = toks[i].start
        # attributes and docs
        while i < hi:
            t = toks[i]
            if t.kind == "doc":
                it.attrs.append((t.text, t.start, t.end)); i += 1
            elif t.kind == "punct" and t.text == "#" and i + 1 < hi and toks[i + 1].text in ("[", "!"):
                j = i + 1
                if toks[j].text == "!":
                    j += 1
                k = match_close(toks, j)
                it.attrs.append((src[t.start:toks[k].end], t.start, toks[k].end)); i = k + 1
            else:
                break
        if i >= hi:
            break
        it.head_start = toks[i].start
        # visibility / qualifiers
        j = i
        while j < hi:
            t = toks[j]
            if t.kind == "id" and t.text == "pub":
                j += 1
                if j < hi and toks[j].text == "(":
                    j = match_close(toks, j) + 1
                continue
            if t.kind == "id" and t.text in ("async", "unsafe", "default", "open", "closed", "spec", "proof", "exec", "uninterp", "broadcast", "tracked", "ghost") and toks[j + 1].kind == "id":
                j += 1; continue
            if t.kind == "id" and t.text == "extern" and toks[j + 1].kind == "str":
                j += 2; continue
            if t.kind == "id" and t.text == "const" and toks[j + 1].kind == "id" and toks[j + 1].text in ("fn", "unsafe", "async", "extern"):
                j += 1; continue
            break
        kw = toks[j]
        kind = kw.text if kw.kind == "id" else "other"
        if kind == "macro_rules":
            kind = "macro"
        it.kind = kind if kind in ("fn", "impl", "mod", "struct", "enum", "union", "const", "static", "use", "type", "trait", "macro", "extern") else "other"
        # find the end
        k = j + 1
        end = None
        depth = 0
        if it.kind in ("use", "static", "type", "const", "extern", "other"):
            while k < hi:
                t = toks[k]
                if t.kind == "punct":
                    if t.text in OPEN:
                        k = match_close(toks, k)
                    elif t.text == ";":
                        end = k; break
                k += 1
        else:
            # ends at first depth-0 ';' or at the close of the first depth-0 '{'
            angle = 0
            while k < hi:
                t = toks[k]
                if t.kind == "punct":
                    if t.text == "{":
                        it.body_open = t.start
                        kc = match_close(toks, k)
                        it.body_close = toks[kc].start
                        it._body_tok = (k, kc)
                        end = kc
                        if it.kind == "struct" and kc + 1 < hi and toks[kc + 1].text == ";":
                            end = kc + 1
                        break
                    elif t.text in ("(", "["):
                        k = match_close(toks, k)
                    elif t.text == ";":
                        end = k; break
                k += 1
        if end is None:
            raise ValueError("unterminated item at byte %d: %r" % (it.start, src[it.start:it.start + 80]))
        it.end = toks[end].end
        it._tok_span = (i, end)
        # name
        if it.kind in ("fn", "mod", "struct", "enum", "union", "trait", "const", "static", "type"):
            nm = toks[j + 1]
            it.name = nm.text
        elif it.kind == "macro":
            it.name = toks[j + 2].text if toks[j + 1].text == "!" else toks[j + 1].text
        elif it.kind == "impl":
            hb = it._body_tok[0]
            head = toks[j + 1:hb]
            # strip leading generics <...>
            h = 0
            if head and head[0].text == "<":
                d = 0
                while h < len(head):
                    if head[h].text == "<": d += 1
                    elif head[h].text == ">":
                        d -= 1
                        if d == 0:
                            h += 1; break
                    elif head[h].text == ">>":
                        d -= 2
                        if d <= 0:
                            h += 1; break
                    h += 1
            head = head[h:]
            # cut where clause
            for w, t in enumerate(head):
                if t.kind == "id" and t.text == "where":
                    head = head[:w]; break
            texts = [t.text for t in head]
            if "for" in texts:
                f = texts.index("for")
                it.impl_trait = _norm_path(texts[:f])
                it.impl_type = _norm_path(texts[f + 1:])
                it.name = "<%s for %s>" % (it.impl_trait, it.impl_type)
            else:
                it.impl_type = _norm_path(texts)
                it.name = it.impl_type
        if it.kind in ("impl", "mod", "trait") and it.body_open is not None:
            bo, bc = it._body_tok
            it.children = parse_items(src, toks, bo + 1, bc)
        if it.kind == "fn":
            it.sig_toks = (j, it._body_tok[0] if it.body_open is not None else end)
        items.append(it)
        i = end + 1
    return items


def _norm_path(texts):
    """`:: core :: cmp :: PartialEq` -> `PartialEq`; keep generic args; drop lifetimes' spaces."""
    s = "".join(texts)
    # drop leading path segments outside of generic args
    out = []
    depth = 0
    seg = ""
    for ch in s:
        if ch == "<":
            depth += 1
        elif ch == ">":
            depth -= 1
        seg += ch
    # remove module prefixes at depth 0: split on '::' at depth 0, take the last
    parts, depth, cur = [], 0, ""
    idx = 0
    while idx < len(s):
        ch = s[idx]
        if ch == "<": depth += 1
        elif ch == ">": depth -= 1
        if depth == 0 and s.startswith("::", idx):
            parts.append(cur); cur = ""; idx += 2; continue
        cur += ch; idx += 1
    parts.append(cur)
    return parts[-1]


def assign_paths(items, prefix=""):
    for it in items:
        if it.kind == "mod":
            it.path = prefix + it.name
            assign_paths(it.children, it.path + "::")
        elif it.kind in ("impl", "trait"):
            it.path = prefix + (it.name or "?")
            assign_paths(it.children, it.path + "::")
        elif it.name:
            it.path = prefix + it.name
        else:
            it.path = prefix + "?"


def walk(items):
    for it in items:
        yield it
        if it.children:
            yield from walk(it.children)


def parse_crate(src):
    toks = lex(src)
    # inner attributes / docs at crate level: `#![...]` handled by parse_items as attrs of first item
    items = parse_items(src, toks, 0, len(toks))
    assign_paths(items)
    return toks, items
