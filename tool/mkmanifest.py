#!/usr/bin/env python3
"""Regenerate /verif/MANIFEST.json from spec/properties.json (one source of truth for the claims)."""
import json, os, sys
V = os.path.dirname(os.path.dirname(os.path.abspath(__file__)))
props = json.load(open(os.path.join(V, "spec", "properties.json")))
allp = [json.loads(l)["id"] for l in open(os.path.join(V, "properties.jsonl"))]
na = json.load(open(os.path.join(V, "spec", "not_applicable.json"))) if os.path.exists(os.path.join(V, "spec", "not_applicable.json")) else {}
COMMON_NOTE = ("Trusted base: Verus/Z3 and Kani/CBMC; rustc's macro expansion as the rendering of the code; extraction rewrites E1-E9 "
               "(undone and compared token by token on every run); the stand-in contracts for sha1/hmac/md5/rand/num-bigint/std::io in "
               "spec/prelude (uninterpreted hashes, mathematical integers); every `assume`/external_body found by the scan is listed in the evidence. ")
checks = []
for pid in allp:
    if pid not in props or props[pid].get("disabled"):
        continue
    c = props[pid]
    eng = "verus" + ("+kani" if c.get("kani") else "")
    checks.append({
        "property_id": pid,
        "quick_cmd": "./verif check %s --tier quick" % pid,
        "thorough_cmd": "./verif check %s --tier thorough" % pid,
        "evidence_file": "/verif/evidence/%s.json" % pid,
        "replay_cmd_template": "./verif replay {path}",
        "engine": eng,
        "level_claimed": {"category": c.get("level", "proof"), "text": c.get("claim", ""), "design_ref": "DESIGN.md section 5 %s and section 11" % pid},
        "level_note": COMMON_NOTE + c.get("note", ""),
        "technique": c.get("technique", "contract-based deductive verification of the real functions (Verus requires/ensures/invariants + ghost lemmas" + ("; Kani full-domain contract harnesses on the real functions for iterator-based code and as fallback when a function leaves Verus's fragment; bounded native searches only as counterexample finders and labelled stand-ins)" if c.get("kani") else ")")),
    })
man = {
    "version": 1,
    "setup_cmd": "./verif setup",
    "hooks": {
        "guard": "gtker_wow_srp_verif",
        "enable": "no hook is committed to /repo: each check appends its harness modules (cfg(kani) / cfg(gtker_wow_srp_verif)) to a scratch copy of the working tree, add-only, checked byte for byte",
        "baseline_off_cmd": "cd /repo && cargo test --workspace --no-fail-fast --offline",
        "source_commits": [],
        "add_only": True,
    },
    "engines": [
        {"name": "verus", "path": "/verif/tool", "serves_properties": [c["property_id"] for c in checks],
         "kind_free_text": "Verus 0.2026.09.13 (Z3) on functions extracted mechanically on every run from rustc's macro-expanded rendering of /repo; contracts in /verif/spec/units/*.vspec, specification vocabulary and lemmas in /verif/spec/lemmas, trusted stand-ins in /verif/spec/prelude"},
        {"name": "kani", "path": "/verif/kani", "serves_properties": [c["property_id"] for c in checks if "kani" in c["engine"]],
         "kind_free_text": "Kani 0.68 / CBMC 6.11 contract harnesses appended as child modules to a scratch copy of /repo (private items reachable, no source line altered); full-domain symbolic inputs, loops bounded by operand width with unwinding assertions"},
    ],
    "checks": checks,
    "not_applicable": [{"property_id": p, "reason": na.get(p, "check under construction in this session")} for p in allp if p not in [c["property_id"] for c in checks]],
    "notes": "Exit codes: 0 property held on everything decided; 1 + VIOLATION line; 2 undecided (lost anchor, unsupported construct, solver resource limit) - never reported as a violation. Fixed defects are recorded in known_findings.json and findings/.",
}
json.dump(man, open(os.path.join(V, "MANIFEST.json"), "w"), indent=1)
print("MANIFEST.json: %d checks, %d not_applicable" % (len(checks), len(man["not_applicable"])))
