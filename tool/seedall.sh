#!/bin/bash
# Sensitivity regression: every recorded seeded change must make its property's quick check exit 1 (run on a patched scratch copy).
cd /verif
for d in seeded/*/; do
  name=$(basename $d)
  prop=$(python3 -c "import json;print(json.load(open('$d/meta.json'))['property'])")
  W=/tmp/seedall/$name; rm -rf $W; mkdir -p $W
  git -C /repo archive HEAD | tar -x -C $W
  (cd $W && patch -p1 -s -i /verif/$d/patch.diff) || { echo "$name $prop PATCH-FAILED"; continue; }
  t0=$(date +%s)
  VERIF_REPO=$W VERIF_EVIDENCE_DIR=/tmp/seedall/ev VERIF_WORK_TAG=seedall- ./verif check $prop --tier quick > /tmp/seedall/$name.log 2>&1; rc=$?
  t1=$(date +%s)
  echo "$name $prop exit=$rc violations=$(grep -c '^VIOLATION' /tmp/seedall/$name.log) wall=$((t1-t0))s"
  rm -rf $W
done
