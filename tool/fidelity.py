"""Fidelity check: the generated unit, with the generator's own (sentinel-marked) changes undone,
must be token-for-token the rustc-expanded source of /repo for every emitted item.

Independent of gen.py: works only from the two texts.
"""
import re, binascii
import rlex

MARK = "// ---- generated from the expanded crate\n"
_ins = re.compile(r"/\*\+V\*/.*?/\*-V\*/", re.S)
_repl = re.compile(r"/\*~V:([0-9a-f]*)\*/.*?/\*-V\*/", re.S)


def revert(text):
    i = text.find(MARK)
    if i < 0:
        raise ValueError("marker not found")
    body = text[i + len(MARK):]
    j = body.rfind("\n} // verus!")
    body = body[:j]
    n_ins = len(_ins.findall(body))
    n_repl = len(_repl.findall(body))
    body = _ins.sub("", body)
    body = _repl.sub(lambda m: binascii.unhexlify(m.group(1)).decode(), body)
    return body, n_ins, n_repl


def index_items(items):
    d = {}
    for it in rlex.walk(items):
        if it.kind in ("mod", "impl"):
            continue
        d.setdefault((it.kind, it.path), []).append(it)
    return d


def check(expanded_src, unit_text, report):
    try:
        rev, n_ins, n_repl = revert(unit_text)
        toks_o, items_o = rlex.parse_crate(expanded_src)
        toks_r, items_r = rlex.parse_crate(rev)
    except Exception as e:
        return {"ok": False, "error": "cannot parse: %s" % e}
    orig = index_items(items_o)
    compared = 0
    fns = 0
    for it in rlex.walk(items_r):
        if it.kind in ("mod",):
            continue
        if it.kind == "impl":
            # compare the impl header
            key = ("impl", it.path)
            continue
        cands = orig.get((it.kind, it.path), [])
        a = rlex.token_texts(rev[it.start:it.end])
        okay = False
        for c in cands:
            if rlex.token_texts(expanded_src[c.start:c.end]) == a:
                okay = True
                break
        if not okay:
            return {"ok": False, "error": "item %s %s of the generated unit differs from the expanded source after undoing the generator's changes" % (it.kind, it.path)}
        compared += 1
        if it.kind == "fn":
            fns += 1
    # every VERIFY function must have been seen
    seen = set(it.path for it in rlex.walk(items_r) if it.kind == "fn")
    for p in report.get("verify", []):
        if p not in seen:
            return {"ok": False, "error": "VERIFY function %s missing from the generated unit" % p}
    return {"ok": True, "items_compared": compared, "functions_compared": fns, "insertions": n_ins, "replacements": n_repl,
            "rewrites": report.get("rewrites", {})}
