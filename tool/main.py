#!/usr/bin/env python3
"""Entry point: ./verif <command> ..."""
import sys, os, json, time, argparse
sys.path.insert(0, os.path.dirname(os.path.abspath(__file__)))
import workspace, verus, gen, vspec
from workspace import VERIF, ToolError


def cmd_dev(args):
    """Developer loop: generate the unit and run Verus, print failures. Not a registered check."""
    log = {}
    report = {}
    if args.expanded:
        src = open(args.expanded).read()
    else:
        with workspace.Scratch("dev") as sc:
            sc.copy_repo()
            src = workspace.expand(sc, log)
    unit = verus.load_unit()
    out = verus.assemble(src, unit, report)
    work = os.path.join(VERIF, ".work")
    os.makedirs(work, exist_ok=True)
    path = os.path.join(work, "unit.rs")
    open(path, "w").write(out.text())
    json.dump(out.marks, open(os.path.join(work, "marks.json"), "w"), indent=0)
    print("generated %s (%d bytes): verify=%d assume=%d assume_default=%d dropped=%d rewrites=%s" % (
        path, out.nbytes, len(report["verify"]), len(report["assume"]), len(report["assume_default"]), len(report["dropped"]), report["rewrites"]))
    if args.no_verus:
        return 0
    extra = []
    if args.module:
        for m in args.module:
            extra += ["--verify-module", m]
    if args.function:
        extra += ["--verify-function", args.function]
    rc, js, diags, stderr = verus.run_verus(path, log, extra=extra, rlimit=args.rlimit)
    failures, front, notes = verus.classify(diags, out.marks, js)
    print("verus rc=%d %.1fs" % (rc, log["verus_s"]))
    if js:
        print("results:", js.get("verification-results"))
    for f in front[: args.max]:
        print("FRONT-END:", f["rendered"] or f["message"])
    for f in failures[: args.max]:
        ob = verus.obligation_id(f["clause"]) if f["clause"] else (verus.obligation_id(f["body"]) if f["body"] else "?")
        print("FAIL %s\n%s" % (ob, f["rendered"]))
    if not js and not diags:
        print(stderr[-3000:])
    return 0


def cmd_setup(args):
    """Warm the dependency caches (offline) and self-test the extraction."""
    log = {}
    with workspace.Scratch("setup") as sc:
        sc.copy_repo()
        src = workspace.expand(sc, log)
        unit = verus.load_unit()
        report = {}
        out = verus.assemble(src, unit, report)
        import fidelity
        fid = fidelity.check(src, out.text(), report)
        print("expand %.1fs; unit %d bytes; verify=%d assume=%d; fidelity %s" % (log["expand_s"], out.nbytes, len(report["verify"]), len(report["assume"]), fid))
        if not fid["ok"]:
            return 2
        import kani
        if hasattr(kani, "warm"):
            kani.warm(sc, log)
    return 0


def cmd_replay(args):
    """Re-run a recorded counterexample against the real code of /repo's current working tree."""
    d = json.load(open(args.path))
    rp = d.get("replay") or {}
    print("property=%s obligation=%s engine=%s" % (d.get("property"), d.get("obligation"), d.get("engine")))
    if rp.get("test") and rp.get("input_hex") is not None:
        import kani
        with workspace.Scratch("replay") as sc:
            sc.copy_repo()
            kani.overlay(sc)
            r = kani.native_replay(sc, rp["test"], rp["input_hex"], {})
        for l in r["lines"]:
            print(l)
        print("reproduced=%s" % r["reproduced"])
        return 1 if r["reproduced"] else 0
    if rp.get("concrete_values"):
        print("counterexample produced by CBMC on the real function (values in the order of the harness's kani::any() calls):")
        print(rp["concrete_values"])
        return 1
    print(d.get("verifier_output", ""))
    print("no executable replay attached: the verifier gave no counterexample for this obligation (no-failing-input-found)")
    return 0


def main():
    ap = argparse.ArgumentParser(prog="verif")
    sub = ap.add_subparsers(dest="cmd")
    d = sub.add_parser("dev")
    d.add_argument("--expanded")
    d.add_argument("--no-verus", action="store_true")
    d.add_argument("--module", action="append")
    d.add_argument("--function")
    d.add_argument("--rlimit", type=int)
    d.add_argument("--max", type=int, default=15)
    c = sub.add_parser("check")
    c.add_argument("pid")
    c.add_argument("--tier", default=os.environ.get("VERIF_TIER", "quick"))
    c.add_argument("--update-baseline", action="store_true")
    sub.add_parser("setup")
    r = sub.add_parser("replay")
    r.add_argument("path")
    args = ap.parse_args()
    try:
        if args.cmd == "setup":
            return cmd_setup(args)
        if args.cmd == "replay":
            return cmd_replay(args)
        if args.cmd == "dev":
            return cmd_dev(args)
        if args.cmd == "check":
            import check
            seed = int(os.environ.get("VERIF_SEED", "0") or 0)
            return check.check(args.pid, args.tier, seed, update_baseline=args.update_baseline)
        ap.print_help()
        return 2
    except (ToolError, gen.GenError) as e:
        print("UNDECIDED: %s" % e)
        return 2
    except Exception:
        # a defect of this tool is never a verdict about the code: exit 2 (undecided), never 1
        import traceback
        traceback.print_exc()
        print("UNDECIDED: internal error of the verification tool (traceback above)")
        return 2


if __name__ == "__main__":
    sys.exit(main())
