#!/bin/bash
# usage: seedcheck.sh <PROP> <seeded_out dir> [name]
# 1. confirms in a scratch worktree: patch applies, suite passes with it, demo fails with it and passes without it
# 2. applies the patch to /repo, runs the property's quick check, restores /repo
set -u
P=$1; SRC=$2; NAME=${3:-$P}; FEAT=${FEAT:-}
W=/tmp/seedverify/$NAME
rm -rf $W; mkdir -p /tmp/seedverify
git -C /repo worktree add -q --detach $W HEAD || exit 3
export CARGO_TARGET_DIR=/tmp/seedverify/target CARGO_NET_OFFLINE=true
cd $W
LOG=/tmp/seedverify/$NAME.log; : > $LOG
demo_is_lib=0
if grep -q "Append\|append" $SRC/demo.rs && grep -q "cargo test --offline --lib" $SRC/demo.rs; then demo_is_lib=1; fi
place_demo() {
  if [ $demo_is_lib = 1 ] && grep -q "src/test.rs" $SRC/demo.rs; then
    cat $SRC/demo.rs >> src/test.rs
  elif [ $demo_is_lib = 1 ]; then
    # append the demo as a new test module at the end of src/server.rs
    python3 - "$SRC/demo.rs" <<'PY'
import sys,re
demo=open(sys.argv[1]).read()
p='src/server.rs'
s=open(p).read()
s+="\n#[cfg(test)]\nmod seeded_demo_mod {\n    use super::*;\n    use crate::key::*;\n    use crate::normalized_string::NormalizedString;\n    use core::convert::TryInto;\n"+demo+"\n}\n"
open(p,'w').write(s)
PY
  else
    cp $SRC/demo.rs tests/seeded_demo.rs
  fi
}
run_demo() {
  if [ $demo_is_lib = 1 ]; then cargo test --offline $FEAT --lib seeded_demo >> $LOG 2>&1; else cargo test --offline $FEAT --test seeded_demo >> $LOG 2>&1; fi
}
echo "--- suite with patch" >> $LOG
git apply $SRC/patch.diff || { echo "PATCH-DOES-NOT-APPLY"; exit 3; }
cargo test --workspace --offline $FEAT >> $LOG 2>&1; suite=$?
place_demo
echo "--- demo with patch" >> $LOG
run_demo; with=$?
git checkout -q -- src
place_demo
echo "--- demo without patch" >> $LOG
run_demo; without=$?
cd /verif
git -C /repo worktree remove --force $W
echo "suite_with_patch_exit=$suite demo_with_patch_exit=$with demo_without_patch_exit=$without"
# 2. our check, against a patched scratch copy (never /repo itself)
W2=/tmp/seedverify/$NAME-patched
rm -rf $W2; mkdir -p $W2
git -C /repo archive HEAD | tar -x -C $W2
(cd $W2 && patch -p1 -s -i $SRC/patch.diff) || exit 3
VERIF_REPO=$W2 VERIF_EVIDENCE_DIR=/tmp/seedverify/ev VERIF_WORK_TAG=seed- ./verif check $P --tier quick > /tmp/seedverify/$NAME.check 2>&1; rc=$?
rm -rf $W2
echo "check_exit=$rc"; grep -c "^VIOLATION" /tmp/seedverify/$NAME.check; tail -4 /tmp/seedverify/$NAME.check | cut -c1-300
