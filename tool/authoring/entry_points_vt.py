"""Authoring helper (not part of any check): emits the c11 entry-point search for the Vanilla and TBC overlays from one template."""
import sys
TEMPLATE = r'''
    // ---- C11 / C12: every entry point (combined object, halves, typed helpers, Read/Write wrappers, clone, split__UNSPLIT_DOC__) against
    // the raw recurrence applied to the header's wire layout.  Reference state is kept outside the library.
    struct RefDir { key: [u8; KL], i: usize, p: u8 }
    impl RefDir {
        fn enc(&mut self, plain: &[u8]) -> Vec<u8> { let mut o = Vec::new(); for x in plain { let c = (x ^ self.key[self.i]).wrapping_add(self.p); o.push(c); self.p = c; self.i = (self.i + 1) % KL; } o }
        fn dec(&mut self, wire: &[u8]) -> Vec<u8> { let mut o = Vec::new(); for c in wire { o.push(c.wrapping_sub(self.p) ^ self.key[self.i]); self.p = *c; self.i = (self.i + 1) % KL; } o }
    }
    enum Obj { Whole(HeaderCrypto), Halves(EncrypterHalf, DecrypterHalf) }
    impl Obj {
        fn e(&mut self) -> &mut EncrypterHalf { match self { Obj::Whole(h) => h.encrypter(), Obj::Halves(e, _) => e } }
        fn d(&mut self) -> &mut DecrypterHalf { match self { Obj::Whole(h) => h.decrypter(), Obj::Halves(_, d) => d } }
    }
    /// delivers `data` in random fragments, sprinkles Interrupted, fails with `kind` once `fail_at` bytes have been delivered
    struct FragReader<'a> { data: &'a [u8], pos: usize, fail_at: Option<usize>, kind: std::io::ErrorKind, rng: u64 }
    impl<'a> std::io::Read for FragReader<'a> {
        fn read(&mut self, buf: &mut [u8]) -> std::io::Result<usize> {
            self.rng ^= self.rng << 13; self.rng ^= self.rng >> 7; self.rng ^= self.rng << 17;
            if self.rng % 4 == 0 { return Err(std::io::Error::from(std::io::ErrorKind::Interrupted)); }
            if let Some(f) = self.fail_at { if self.pos >= f { return Err(std::io::Error::from(self.kind)); } }
            let limit = self.fail_at.unwrap_or(self.data.len()).min(self.data.len());
            let avail = limit - self.pos;
            if avail == 0 || buf.is_empty() { return Ok(0); }
            let n = 1 + (self.rng as usize % avail.min(buf.len()));
            buf[..n].copy_from_slice(&self.data[self.pos..self.pos + n]); self.pos += n; Ok(n)
        }
    }
    /// accepts bytes in random fragments, sprinkles Interrupted, fails with `kind` once `fail_at` bytes have been accepted
    struct FragWriter { got: Vec<u8>, fail_at: Option<usize>, kind: std::io::ErrorKind, rng: u64 }
    impl std::io::Write for FragWriter {
        fn write(&mut self, buf: &[u8]) -> std::io::Result<usize> {
            self.rng ^= self.rng << 13; self.rng ^= self.rng >> 7; self.rng ^= self.rng << 17;
            if self.rng % 4 == 0 { return Err(std::io::Error::from(std::io::ErrorKind::Interrupted)); }
            if let Some(f) = self.fail_at { if self.got.len() >= f { return Err(std::io::Error::from(self.kind)); } }
            if buf.is_empty() { return Ok(0); }
            let room = self.fail_at.map(|f| f - self.got.len()).unwrap_or(buf.len()).min(buf.len());
            let n = 1 + (self.rng as usize % room);
            self.got.extend_from_slice(&buf[..n]); Ok(n)
        }
        fn flush(&mut self) -> std::io::Result<()> { Ok(()) }
    }
    const KINDS: [std::io::ErrorKind; 5] = [std::io::ErrorKind::UnexpectedEof, std::io::ErrorKind::TimedOut, std::io::ErrorKind::ConnectionReset, std::io::ErrorKind::BrokenPipe, std::io::ErrorKind::Other];
    #[test]
    fn verif_search___NAME__() {
        let seed = std::env::var("VERIF_SEED").ok().and_then(|s| s.parse::<u64>().ok()).unwrap_or(0) ^ 0x9E3779B97F4A7C15;
        let mut rng = Rng(seed);
        let mut n = 0u64;
        let sizes = [0u16, 1, 4, 0xff, 0x100, 0x7fff, 0x8000, 0xfffe, 0xffff, 0x1234];
        let opcodes = [0u32, 1, 0xff, 0x100, 0xffff, 0x1_0000, 0x00ff_ffff, 0x8000_0000, 0xffff_ffff, 0x1234_5678];
        macro_rules! fail { ($($a:tt)*) => { { println!("REPLAY-FAIL __NAME__ {}", format!($($a)*)); return; } } }
        for session in 0..600u32 {
            let mut sk = [0u8; 40]; for x in sk.iter_mut() { *x = rng.next() as u8; }
            match session { 0 => sk = [0u8; 40], 1 => sk = [0xff; 40], 2 => { for z in 0..8 { sk[39 - z] = 0; } }, 3 => { for z in 0..8 { sk[z] = 0; } }, _ => {} }
            let dk: [u8; KL] = __DERIVE__;
            let mut re = RefDir { key: dk, i: 0, p: 0 };
            let mut rd = RefDir { key: dk, i: 0, p: 0 };
            let mut obj = Obj::Whole(HeaderCrypto::new(sk));
            for step in 0..60u32 {
                n += 1;
                let op = rng.next() % 16;
                let size = sizes[(rng.next() % sizes.len() as u64) as usize];
                let opcode = if rng.next() % 3 == 0 { rng.next() as u32 } else { opcodes[(rng.next() % opcodes.len() as u64) as usize] };
                let sh: Vec<u8> = vec![(size >> 8) as u8, size as u8, opcode as u16 as u8, ((opcode as u16) >> 8) as u8];
                let ch: Vec<u8> = vec![(size >> 8) as u8, size as u8, opcode as u8, (opcode >> 8) as u8, (opcode >> 16) as u8, (opcode >> 24) as u8];
                let via_whole = rng.next() % 2 == 0;
                match op {
                    0 => { // raw encrypt of a chunk
                        let len = (rng.next() % 13) as usize; let plain: Vec<u8> = (0..len).map(|_| rng.next() as u8).collect();
                        let want = re.enc(&plain); let mut buf = plain.clone();
                        match &mut obj { Obj::Whole(h) if via_whole => h.encrypt(&mut buf), _ => obj.e().encrypt(&mut buf) }
                        if buf != want { fail!("encrypt of a {}-byte chunk differs from the recurrence (session {}, step {})", len, session, step); }
                    }
                    1 => { // raw decrypt of a chunk
                        let len = (rng.next() % 13) as usize; let wire: Vec<u8> = (0..len).map(|_| rng.next() as u8).collect();
                        let want = rd.dec(&wire); let mut buf = wire.clone();
                        match &mut obj { Obj::Whole(h) if via_whole => h.decrypt(&mut buf), _ => obj.d().decrypt(&mut buf) }
                        if buf != want { fail!("decrypt of a {}-byte chunk differs from the recurrence (session {}, step {})", len, session, step); }
                    }
                    2 => { let want = re.enc(&sh);
                        let got = match &mut obj { Obj::Whole(h) if via_whole => h.encrypt_server_header(size, opcode as u16), _ => obj.e().encrypt_server_header(size, opcode as u16) };
                        if got.to_vec() != want { fail!("encrypt_server_header(size={:#x}, opcode={:#x}) != raw encrypt of be16(size) le16(opcode)", size, opcode as u16); } }
                    3 => { let want = re.enc(&ch);
                        let got = match &mut obj { Obj::Whole(h) if via_whole => h.encrypt_client_header(size, opcode), _ => obj.e().encrypt_client_header(size, opcode) };
                        if got.to_vec() != want { fail!("encrypt_client_header(size={:#x}, opcode={:#x}) != raw encrypt of be16(size) le32(opcode)", size, opcode); } }
                    4 | 5 => { // Write wrappers through a fragmenting, interrupting writer
                        let want = re.enc(if op == 4 { &sh } else { &ch });
                        let mut w = FragWriter { got: Vec::new(), fail_at: None, kind: std::io::ErrorKind::Other, rng: rng.next() | 1 };
                        let r = match (&mut obj, op) {
                            (Obj::Whole(h), 4) if via_whole => h.write_encrypted_server_header(&mut w, size, opcode as u16),
                            (Obj::Whole(h), _) if via_whole => h.write_encrypted_client_header(&mut w, size, opcode),
                            (o, 4) => o.e().write_encrypted_server_header(&mut w, size, opcode as u16),
                            (o, _) => o.e().write_encrypted_client_header(&mut w, size, opcode),
                        };
                        if r.is_err() || w.got != want { fail!("write_encrypted_{}_header: result {:?}, {} of {} expected bytes written / bytes differ", if op == 4 { "server" } else { "client" }, r.map_err(|e| e.kind()), w.got.len(), want.len()); }
                    }
                    6 => { let wire: Vec<u8> = (0..4).map(|_| rng.next() as u8).collect(); let p = rd.dec(&wire);
                        let mut a = [0u8; 4]; a.copy_from_slice(&wire);
                        let got = match &mut obj { Obj::Whole(h) if via_whole => h.decrypt_server_header(a), _ => obj.d().decrypt_server_header(a) };
                        if got.size != u16::from_be_bytes([p[0], p[1]]) || got.opcode != u16::from_le_bytes([p[2], p[3]]) { fail!("decrypt_server_header gives size={:#x} opcode={:#x} for plaintext {:02x?}", got.size, got.opcode, p); } }
                    7 => { let wire: Vec<u8> = (0..6).map(|_| rng.next() as u8).collect(); let p = rd.dec(&wire);
                        let mut a = [0u8; 6]; a.copy_from_slice(&wire);
                        let got = match &mut obj { Obj::Whole(h) if via_whole => h.decrypt_client_header(a), _ => obj.d().decrypt_client_header(a) };
                        if got.size != u16::from_be_bytes([p[0], p[1]]) || got.opcode != u32::from_le_bytes([p[2], p[3], p[4], p[5]]) { fail!("decrypt_client_header gives size={:#x} opcode={:#x} for plaintext {:02x?}", got.size, got.opcode, p); } }
                    8 | 9 => { // Read wrappers: fragmented, interrupted; the reader holds more bytes than the header and exactly the header is consumed
                        let hl = if op == 8 { 4 } else { 6 };
                        let data: Vec<u8> = (0..hl + 3).map(|_| rng.next() as u8).collect();
                        let p = rd.dec(&data[..hl]);
                        let mut r = FragReader { data: &data, pos: 0, fail_at: None, kind: std::io::ErrorKind::Other, rng: rng.next() | 1 };
                        let ok = if op == 8 {
                            let g = match &mut obj { Obj::Whole(h) if via_whole => h.read_and_decrypt_server_header(&mut r), _ => obj.d().read_and_decrypt_server_header(&mut r) };
                            matches!(g, Ok(h) if h.size == u16::from_be_bytes([p[0], p[1]]) && h.opcode == u16::from_le_bytes([p[2], p[3]]))
                        } else {
                            let g = match &mut obj { Obj::Whole(h) if via_whole => h.read_and_decrypt_client_header(&mut r), _ => obj.d().read_and_decrypt_client_header(&mut r) };
                            matches!(g, Ok(h) if h.size == u16::from_be_bytes([p[0], p[1]]) && h.opcode == u32::from_le_bytes([p[2], p[3], p[4], p[5]]))
                        };
                        if !ok || r.pos != hl { fail!("read_and_decrypt_{}_header through a fragmenting reader: wrong header or {} bytes consumed instead of {}", if op == 8 { "server" } else { "client" }, r.pos, hl); }
                    }
                    10 | 11 => { // reader failing before the header is complete: error with that kind, decrypter untouched (the reference does not move)
                        let hl = if op == 10 { 4 } else { 6 };
                        let data: Vec<u8> = (0..hl).map(|_| rng.next() as u8).collect();
                        let at = (rng.next() % hl as u64) as usize; let kind = KINDS[(rng.next() % 5) as usize];
                        let mut r = FragReader { data: &data, pos: 0, fail_at: Some(at), kind, rng: rng.next() | 1 };
                        let e = if op == 10 {
                            match &mut obj { Obj::Whole(h) if via_whole => h.read_and_decrypt_server_header(&mut r).err(), _ => obj.d().read_and_decrypt_server_header(&mut r).err() }
                        } else {
                            match &mut obj { Obj::Whole(h) if via_whole => h.read_and_decrypt_client_header(&mut r).err(), _ => obj.d().read_and_decrypt_client_header(&mut r).err() }
                        };
                        match e { Some(e) if e.kind() == kind => {}, other => fail!("reader failing with {:?} after {} of {} bytes: got {:?}", kind, at, hl, other.map(|e| e.kind())) }
                    }
                    12 => { // failing writer: the error is reported with its kind; the session is then abandoned (the statement fixes no state here)
                        let hl = if via_whole { 4 } else { 6 };
                        let at = (rng.next() % hl as u64) as usize; let kind = KINDS[(rng.next() % 5) as usize];
                        let mut w = FragWriter { got: Vec::new(), fail_at: Some(at), kind, rng: rng.next() | 1 };
                        let r = if via_whole { obj.e().write_encrypted_server_header(&mut w, size, opcode as u16) } else { obj.e().write_encrypted_client_header(&mut w, size, opcode) };
                        match r { Err(e) if e.kind() == kind => {}, other => fail!("writer failing with {:?} after {} of {} bytes: got {:?}", kind, at, hl, other.map_err(|e| e.kind())) }
                        break;
                    }
                    13 => { // continue on a clone; the original must stay usable and unaffected (checked by advancing the clone only)
                        obj = match &obj { Obj::Whole(h) => Obj::Whole(h.clone()), Obj::Halves(e, d) => Obj::Halves(e.clone(), d.clone()) };
                    }
                    14 => { // split
                        obj = match obj { Obj::Whole(h) => { let (e, d) = h.split(); Obj::Halves(e, d) }, o => o };
                    }
                    _ => { __UNSPLIT__ }
                }
            }
        }
        println!("REPLAY-STATS __NAME__ inputs={} all-ok", n);
    }
'''
UNSPLIT_V = r'''// re-join (Vanilla): succeeds for the two halves of one session; refused for a half of another session (key differing in one late byte)
                        obj = match obj {
                            Obj::Halves(e, d) => {
                                let mut other = sk; other[39] ^= 0x01;
                                let (_, foreign) = HeaderCrypto::new(other).split();
                                if e.is_pair_of(&foreign) || foreign.is_pair_of(&e) || !e.is_pair_of(&d) || !d.is_pair_of(&e) { fail!("is_pair_of is wrong for keys differing in the last byte / for the two halves of one session"); }
                                if e.clone().unsplit(foreign).is_ok() { fail!("unsplit accepted a decrypter of another session (keys differ in the last byte)"); }
                                match e.unsplit(d) { Ok(h) => Obj::Whole(h), Err(_) => fail!("unsplit refused the two halves of one session") }
                            }
                            o => o,
                        };'''
UNSPLIT_T = r'''/* no unsplit in this expansion */'''

def emit(name, derive, unsplit, unsplit_doc):
    return (TEMPLATE.replace("__NAME__", name).replace("__DERIVE__", derive).replace("__UNSPLIT__", unsplit).replace("__UNSPLIT_DOC__", unsplit_doc))

if __name__ == "__main__":
    which = sys.argv[1]
    if which == "vanilla":
        sys.stdout.write(emit("c11_vanilla_entry_points", "sk", UNSPLIT_V, ", unsplit"))
    else:
        sys.stdout.write(emit("c11_tbc_entry_points", "ref_hmac_sha1(&REF_TBC_SEED, &sk)", UNSPLIT_T, ""))
