#!/bin/bash
# False-alarm regression: every recorded semantics-preserving edit (harmless/*/patch.diff, each passing the repository's own tests) is
# applied to a scratch copy; the quick check of every property it names must NOT exit 1 / print VIOLATION (0 = held, 2 = undecided).
cd /verif
mkdir -p /tmp/harmless
for d in harmless/*/; do
  name=$(basename $d)
  props=$(python3 -c "import json;print(' '.join(json.load(open('$d/meta.json'))['properties']))")
  W=/tmp/harmless/$name; rm -rf $W; mkdir -p $W
  git -C /repo archive HEAD | tar -x -C $W
  (cd $W && patch -p1 -s -i /verif/$d/patch.diff) || { echo "$name PATCH-FAILED"; continue; }
  for prop in $props; do
    t0=$(date +%s)
    VERIF_REPO=$W VERIF_EVIDENCE_DIR=/tmp/harmless/ev VERIF_WORK_TAG=harmless- ./verif check $prop --tier quick > /tmp/harmless/$name.$prop.log 2>&1; rc=$?
    t1=$(date +%s)
    v=$(grep -c '^VIOLATION' /tmp/harmless/$name.$prop.log)
    verdict=ok; if [ $rc = 1 ] || [ $v != 0 ]; then verdict=FALSE-ALARM; fi
    echo "$name $prop exit=$rc violations=$v wall=$((t1-t0))s $verdict"
  done
  rm -rf $W
done
