"""Unit generator: expanded crate text + .vspec contracts -> one Verus file.

Every change to the original text is wrapped in sentinels so that an
independent pass (fidelity.py) can undo it and compare token streams:

  /*+V*/ inserted text /*-V*/                     pure insertion
  /*~V:<hex of original text>*/ new text /*-V*/   replacement (possibly by nothing)

Whole items that are not emitted (DROP) are listed in the report instead.
"""
import re, binascii
import rlex, vspec


class GenError(Exception):
    pass


DROP_ATTRS = ("must_use", "inline", "allow", "doc", "automatically_derived", "coverage", "warn", "deny", "cfg_attr", "prelude_import", "macro_use", "non_exhaustive")
# trait impls that are never emitted (E1); Debug is re-rendered as #[derive(Debug)]
DROP_TRAITS = {"Debug", "Display", "Error", "Hash", "Ord", "PartialOrd", "Eq", "StructuralPartialEq", "TrivialClone", "Iterator"}
REDIRECT = {"sha1", "hmac", "md5", "rand", "num_bigint", "rug"}
SHIM_METHODS = {"to_be_bytes", "to_le_bytes", "from_be_bytes", "from_le_bytes", "try_into"}
INT_SIZES = {"u8": 1, "i8": 1, "u16": 2, "i16": 2, "u32": 4, "i32": 4, "u64": 8, "i64": 8, "u128": 16, "i128": 16}


def hexs(s):
    return binascii.hexlify(s.encode()).decode()


class Out:
    def __init__(self):
        self.parts = []
        self.nbytes = 0
        self.marks = []     # dicts with byte spans in the output

    def raw(self, text):
        self.parts.append(text)
        self.nbytes += len(text.encode())

    def ins(self, text, meta=None):
        self.raw("/*+V*/")
        s = self.nbytes
        self.raw(text)
        e = self.nbytes
        self.raw("/*-V*/")
        if meta is not None:
            m = dict(meta); m["start"] = s; m["end"] = e
            self.marks.append(m)

    def repl(self, orig, new, meta=None):
        self.raw("/*~V:%s*/" % hexs(orig))
        s = self.nbytes
        self.raw(new)
        e = self.nbytes
        self.raw("/*-V*/")
        if meta is not None:
            m = dict(meta); m["start"] = s; m["end"] = e
            self.marks.append(m)

    def text(self):
        return "".join(self.parts)


class Edit:
    __slots__ = ("start", "end", "new", "meta", "order")
    def __init__(self, start, end, new, meta=None, order=0):
        self.start, self.end, self.new, self.meta, self.order = start, end, new, meta, order


def apply_edits(out, src, lo, hi, edits):
    """Emit src[lo:hi] with edits (absolute byte offsets in src == char offsets; src must be ASCII-safe
    for offsets: we work on python str indices throughout, output marks are computed in bytes)."""
    edits = sorted(edits, key=lambda e: (e.start, e.end != e.start, e.order))
    pos = lo
    for e in edits:
        if e.start < pos:
            raise GenError("overlapping edits at %d: %r" % (e.start, e.new[:40]))
        out.raw(src[pos:e.start])
        if e.end == e.start:
            out.ins(e.new, e.meta)
        else:
            out.repl(src[e.start:e.end], e.new, e.meta)
        pos = e.end
    out.raw(src[pos:hi])


class Generator:
    canary = False      # thorough tier: insert `assert(false)` at the start of every VERIFY body (each must then FAIL)

    def __init__(self, src, unit, report):
        self.src = src
        self.unit = unit
        self.toks, self.items = rlex.parse_crate(src)
        self.report = report    # dict filled with lists
        self.report.setdefault("verify", [])
        self.report.setdefault("assume", [])
        self.report.setdefault("assume_default", [])
        self.report.setdefault("dropped", [])
        self.report.setdefault("rewrites", {})
        self.tokstart = {t.start: i for i, t in enumerate(self.toks)}

    # ------------------------------------------------------------ helpers
    def count(self, kind):
        self.report["rewrites"][kind] = self.report["rewrites"].get(kind, 0) + 1

    def tok_range(self, it):
        return it._tok_span

    def included(self, path):
        for m in self.unit.modules:
            if path == m or path.startswith(m + "::"):
                return True
        return False

    def dropped(self, path):
        for d in self.unit.drops:
            if path == d or path.startswith(d + "::") or (d.endswith("*") and path.startswith(d[:-1])):
                return True
        return False

    # ------------------------------------------------------------ generic token rewrites inside a span
    def common_edits(self, i0, i1):
        """E3 (dependency paths -> stand-ins) and E4 (byte-order shims) on toks[i0:i1+1]."""
        toks = self.toks
        edits = []
        i = i0
        while i <= i1:
            t = toks[i]
            if t.kind == "id":
                prev = toks[i - 1].text if i > 0 else ""
                nxt = toks[i + 1].text if i + 1 < len(toks) else ""
                if t.text in REDIRECT and nxt == "::" and prev not in ("::", "."):
                    edits.append(Edit(t.start, t.start, "crate::", None)); self.count("E3")
                elif t.text == "std" and nxt == "::" and prev not in ("::", ".") and toks[i + 2].text == "io":
                    # std::io -> crate::std_io
                    edits.append(Edit(t.start, toks[i + 2].end, "crate::std_io", None)); self.count("E3")
                    i += 3; continue
                elif t.text in SHIM_METHODS and nxt == "(" and (
                        (prev == "." and not t.text.startswith("from_")) or
                        (prev == "::" and t.text.startswith("from_") and toks[i - 2].text in INT_SIZES)):
                    edits.append(Edit(t.start, t.end, "verif_" + t.text, None)); self.count("E4")
            i += 1
        return edits

    def attr_edits(self, it, extra_keep=()):
        edits = []
        for text, s, e in it.attrs:
            if text.startswith("//") or text.startswith("/*"):
                edits.append(Edit(s, e, "")); self.count("E1-doc")
                continue
            m = re.match(r"#!?\[\s*([A-Za-z_:]+)", text)
            name = m.group(1) if m else ""
            if name in DROP_ATTRS:
                edits.append(Edit(s, e, "")); self.count("E1-attr")
        return edits

    def vis_edit(self, it, j0):
        """E2: make the item public. j0 = token index of first token after attrs."""
        t = self.toks[j0]
        if t.kind == "id" and t.text == "pub":
            if self.toks[j0 + 1].text == "(":
                k = rlex.match_close(self.toks, j0 + 1)
                self.count("E2")
                return [Edit(t.start, self.toks[k].end, "pub")]
            return []
        self.count("E2")
        return [Edit(t.start, t.start, "pub ")]

    def first_tok_after_attrs(self, it):
        return self.tokstart[it.head_start]

    # ------------------------------------------------------------ items
    def emit_items(self, out, items, in_trait_impl=False, indent=""):
        for it in items:
            self.emit_item(out, it, in_trait_impl)

    def emit_item(self, out, it, in_trait_impl):
        src = self.src
        path = it.path
        if it.kind == "mod":
            if not self.included(path) and not any(m.startswith(path + "::") for m in self.unit.modules):
                self.report["dropped"].append("mod " + path)
                return
            j0 = self.first_tok_after_attrs(it)
            edits = self.attr_edits(it) + self.vis_edit(it, j0)
            bo, bc = it._body_tok
            apply_edits(out, src, it.start, self.toks[bo].end, edits)
            out.raw("\n")
            out.ins("#[allow(unused_imports)] use vstd::prelude::*; #[allow(unused_imports)] use crate::verif_prelude::*;\n")
            if self.included(path):
                self.emit_items(out, it.children)
            else:
                for ch in it.children:
                    if ch.kind == "mod":
                        self.emit_item(out, ch, False)
                    else:
                        self.report["dropped"].append("%s %s" % (ch.kind, ch.path))
            out.raw("\n}\n")
            return
        if self.dropped(path):
            self.report["dropped"].append("%s %s" % (it.kind, path))
            return
        if it.kind == "macro":
            self.report["dropped"].append("macro_rules " + path)
            return
        if it.kind == "use" or it.kind == "extern":
            text = src[it.head_start:it.end]
            if "std::prelude" in text or it.kind == "extern":
                self.report["dropped"].append("use " + " ".join(text.split()))
                return
            i0, i1 = it._tok_span
            edits = self.attr_edits(it) + self.common_edits(i0, i1)
            apply_edits(out, src, it.start, it.end, edits)
            out.raw("\n")
            return
        if it.kind == "impl":
            self.emit_impl(out, it)
            return
        if it.kind == "fn":
            self.emit_fn(out, it, in_trait_impl)
            return
        if it.kind in ("struct", "enum", "union"):
            self.emit_adt(out, it)
            return
        if it.kind in ("const", "static"):
            self.emit_const(out, it, in_trait_impl)
            return
        # type aliases, traits, others: verbatim with common rewrites
        i0, i1 = it._tok_span
        edits = self.attr_edits(it) + self.common_edits(i0, i1)
        if it.kind in ("type", "trait") and not in_trait_impl:
            edits += self.vis_edit(it, self.first_tok_after_attrs(it))
        apply_edits(out, src, it.start, it.end, edits)
        out.raw("\n")

    def emit_const(self, out, it, in_trait_impl):
        src = self.src
        i0, i1 = it._tok_span
        edits = self.attr_edits(it)
        if not in_trait_impl:
            edits += self.vis_edit(it, self.first_tok_after_attrs(it))
        text = src[it.head_start:it.end]
        if "size_of" in text:
            # E6: evaluate `(core::mem::size_of::<T>() + ...) as u8` for primitive integer T
            eq = None
            for k in range(i0, i1 + 1):
                if self.toks[k].text == "=" and self.toks[k].kind == "punct":
                    eq = k; break
            expr = src[self.toks[eq + 1].start:self.toks[i1].start]
            val = self.eval_sizeof(expr)
            edits.append(Edit(self.toks[eq + 1].start, self.toks[i1].start, str(val)))
            self.count("E6")
            self.report.setdefault("layout_consts", {})[it.path] = val
        else:
            edits += self.common_edits(i0, i1)
        apply_edits(out, src, it.start, it.end, edits)
        out.raw("\n")

    def eval_sizeof(self, expr):
        e = " ".join(expr.split())
        m = re.match(r"^\((.*)\) as u8$", e)
        if not m:
            raise GenError("E6: unsupported layout constant expression: %s" % e)
        total = 0
        for term in m.group(1).split("+"):
            term = term.replace(" ", "")
            m2 = re.match(r"^(?:::)?core::mem::size_of::<(\w+)>\(\)$", term)
            if not m2 or m2.group(1) not in INT_SIZES:
                raise GenError("E6: unsupported layout term: %s" % term)
            total += INT_SIZES[m2.group(1)]
        return total

    def emit_adt(self, out, it):
        src = self.src
        toks = self.toks
        j0 = self.first_tok_after_attrs(it)
        edits = self.attr_edits(it) + self.vis_edit(it, j0)
        i0, i1 = it._tok_span
        if it.kind == "struct" and it.body_open is not None:
            bo, bc = it._body_tok
            k = bo + 1
            # fields: at depth 0 inside braces, each starts after '{' or ','
            start_field = True
            angle = 0
            while k < bc:
                t = toks[k]
                if start_field:
                    # skip attrs/docs
                    while toks[k].kind == "doc" or (toks[k].text == "#" and toks[k + 1].text == "["):
                        if toks[k].kind == "doc":
                            edits.append(Edit(toks[k].start, toks[k].end, "")); k += 1
                        else:
                            kk = rlex.match_close(toks, k + 1)
                            k = kk + 1
                    if k >= bc:
                        break
                    edits += self.vis_edit(it, k)
                    start_field = False
                    continue
                if t.kind == "punct" and t.text in rlex.OPEN:
                    k = rlex.match_close(toks, k) + 1; continue
                if t.kind == "punct" and t.text in ("<", "<<"):
                    angle += len(t.text)
                if t.kind == "punct" and t.text in (">", ">>"):
                    angle -= len(t.text)
                if t.kind == "punct" and t.text == "," and angle == 0:
                    start_field = True
                k += 1
        elif it.kind == "enum":
            # drop docs inside
            bo, bc = it._body_tok
            for k in range(bo + 1, bc):
                if toks[k].kind == "doc":
                    edits.append(Edit(toks[k].start, toks[k].end, ""))
        edits += self.common_edits(self.tokstart[it.head_start], i1)
        # de-duplicate identical edits (vis_edit may collide with common edits never; safe)
        if it.path in self.debug_types:
            out.ins("#[derive(Debug)]\n"); self.count("E1-debug-derive")
        apply_edits(out, src, it.start, it.end, edits)
        out.raw("\n")

    def emit_impl(self, out, it):
        src = self.src
        if it.impl_trait is not None:
            base = it.impl_trait.split("<")[0]
            if base in DROP_TRAITS:
                self.report["dropped"].append("impl " + it.path)
                return
        bo, bc = it._body_tok
        i0, i1 = it._tok_span
        edits = self.attr_edits(it) + self.common_edits(self.tokstart[it.head_start], bo)
        apply_edits(out, src, it.start, self.toks[bo].end, edits)
        out.raw("\n")
        for ch in it.children:
            self.emit_item(out, ch, in_trait_impl=(it.impl_trait is not None))
        out.raw("}\n")

    # ------------------------------------------------------------ functions
    def fn_spec(self, it):
        fs = self.unit.fns.get(it.path)
        if fs is not None:
            fs.used = True
        return fs

    def emit_fn(self, out, it, in_trait_impl):
        src, toks = self.src, self.toks
        fs = self.fn_spec(it)
        mode = fs.mode if fs else self.unit.default
        if mode == "drop":
            self.report["dropped"].append("fn " + it.path)
            return
        i0, i1 = it._tok_span
        j0 = self.first_tok_after_attrs(it)
        if it.body_open is None:
            # declaration without body (trait method): verbatim
            apply_edits(out, src, it.start, it.end, self.attr_edits(it) + self.common_edits(j0, i1))
            out.raw("\n")
            return
        bo, bc = it._body_tok
        edits = self.attr_edits(it)
        if not in_trait_impl:
            edits += self.vis_edit(it, j0)
        edits += self.common_edits(j0, bo - 1)
        if mode == "verify":
            # E9: a `const fn` whose body calls a byte-order shim (E4) loses `const` (trait shims are not const)
            uses_shim = any(toks[k].kind == "id" and toks[k].text in SHIM_METHODS for k in range(bo, bc))
            if uses_shim:
                for k in range(j0, bo):
                    if toks[k].kind == "id" and toks[k].text == "fn":
                        break
                    if toks[k].kind == "id" and toks[k].text == "const":
                        edits.append(Edit(toks[k].start, toks[k].end, "")); self.count("E9-const")
        # return value naming
        rname = fs.returns if fs and fs.returns else None
        if rname:
            edits += self.return_name_edits(it, j0, bo, rname)
        # contract
        contract_pos = toks[bo].start
        fnmeta = {"fn": it.path}
        pre_attrs = []
        if mode == "assume":
            pre_attrs.append("#[verifier::external_body]")
        if fs:
            pre_attrs += fs.attrs
        if pre_attrs:
            edits.append(Edit(toks[j0].start, toks[j0].start, " ".join(pre_attrs) + "\n", None, order=-1))
        body_edits = []
        if mode == "verify":
            try:
                body_edits = self.body_edits(it, fs, bo, bc)
            except GenError as e:
                # the body changed under the contract's anchors: keep the contract, give up on the body (decided elsewhere or undecided)
                self.report.setdefault("lost_anchor", []).append({"fn": it.path, "reason": "lost anchor: " + str(e)[:200]})
                mode = "assume"
                edits.append(Edit(toks[j0].start, toks[j0].start, "#[verifier::external_body]\n", None, order=-2))
        # emit header
        hdr_edits = [e for e in edits]
        apply_edits(out, src, it.start, contract_pos, hdr_edits)
        if fs:
            self.emit_contract(out, it, fs, assumed=(mode == "assume"))
        if mode == "assume":
            out.repl(src[toks[bo].start:toks[bc].end], "{ unimplemented!() }")
            self.count("E7")
            out.raw("\n")
            (self.report["assume"] if fs else self.report["assume_default"]).append(it.path)
            return
        body_start = out.nbytes
        apply_edits(out, src, toks[bo].start, toks[bc].end, body_edits)
        out.marks.append({"kind": "body", "fn": it.path, "start": body_start, "end": out.nbytes,
                          "tags": fs.props if fs else []})
        out.raw("\n")
        self.report["verify"].append(it.path)

    def return_name_edits(self, it, j0, bo, rname):
        toks = self.toks
        # find '->' at depth 0 after the parameter list
        k = j0
        while not (toks[k].kind == "id" and toks[k].text == "fn"):
            k += 1
        k += 2  # fn name
        if toks[k].text == "<":
            d = 0
            while True:
                if toks[k].text == "<": d += 1
                elif toks[k].text == ">": d -= 1
                elif toks[k].text == ">>": d -= 2
                k += 1
                if d <= 0:
                    break
        if toks[k].text != "(":
            raise GenError("%s: cannot find parameter list" % it.path)
        k = rlex.match_close(toks, k) + 1
        if toks[k].text != "->":
            raise GenError("%s: @returns given but function has no return type" % it.path)
        arrow = toks[k]
        # type extends to 'where' at depth 0 or bo
        e = k + 1
        while e < bo:
            if toks[e].kind == "id" and toks[e].text == "where":
                break
            if toks[e].kind == "punct" and toks[e].text in rlex.OPEN:
                e = rlex.match_close(toks, e)
            e += 1
        last = toks[e - 1]
        self.count("E8-return-name")
        return [Edit(arrow.end, arrow.end, " (%s: " % rname), Edit(last.end, last.end, ")")]

    def emit_contract(self, out, it, fs, assumed=False):
        def group(kind, clauses):
            if not clauses:
                return
            out.ins("\n    %s\n" % kind)
            for n, c in enumerate(clauses):
                out.ins("        " + c.text + ",\n",
                        {"kind": kind, "fn": it.path, "idx": n, "tags": c.tags, "text": c.text, "where": c.line, "assumed": assumed})
        group("requires", fs.requires)
        if fs.assume_pre:
            pre = " && ".join("(%s)" % c.text for c in fs.assume_pre)
            wrapped = []
            for c in fs.ensures:
                w = vspec.Clause("ensures", c.tags, "(%s) ==> (%s)" % (pre, c.text), c.line)
                wrapped.append(w)
            group("ensures", wrapped)
        else:
            group("ensures", fs.ensures)
        if fs.decreases:
            out.ins("\n    decreases %s,\n" % fs.decreases)

    def find_loops(self, bo, bc):
        """Return list of (kw_index, body_open_index, body_close_index) in token order."""
        toks = self.toks
        loops = []
        k = bo + 1
        while k < bc:
            t = toks[k]
            if t.kind == "id" and t.text in ("for", "while", "loop"):
                prev = toks[k - 1]
                # `for` in `impl Trait for` / HRTB cannot occur inside bodies of this crate; accept
                d = k + 1
                while d < bc:
                    if toks[d].kind == "punct":
                        if toks[d].text == "{":
                            break
                        if toks[d].text in ("(", "["):
                            d = rlex.match_close(toks, d)
                    d += 1
                loops.append((k, d, rlex.match_close(toks, d)))
            k += 1
        return loops

    def find_anchor(self, it, bo, bc, text):
        toks = self.toks
        want = rlex.token_texts(text)
        body = []
        idx = []
        for k in range(bo, bc + 1):
            t = toks[k]
            if t.kind == "doc":
                continue
            if t.kind == "punct":
                for ch in t.text:
                    body.append(ch); idx.append(k)
            else:
                body.append(t.text); idx.append(k)
        # rustc's pretty printer adds a trailing comma only when it breaks a list over several lines: ignore `,` before a closer
        def norm(seq, ids):
            o, oi = [], []
            for k, t in enumerate(seq):
                if t == "," and k + 1 < len(seq) and seq[k + 1] in ("}", ")", "]"):
                    continue
                o.append(t); oi.append(ids[k] if ids else k)
            return o, oi
        want, _ = norm(want, None)
        body, idx = norm(body, idx)
        hits = []
        n = len(want)
        for s in range(0, len(body) - n + 1):
            if body[s:s + n] == want:
                hits.append((idx[s], idx[s + n - 1]))
        if len(hits) != 1:
            raise GenError("%s: anchor `%s` matches %d times" % (it.path, text, len(hits)))
        return hits[0]

    def body_edits(self, it, fs, bo, bc):
        toks = self.toks
        edits = self.common_edits(bo, bc)
        if self.canary and fs:
            edits.append(Edit(toks[bo].end, toks[bo].end, "\n proof { assert(false); } /* vacuity canary */\n",
                              {"kind": "canary", "fn": it.path, "tags": fs.props}, 40))
        if not fs:
            return edits
        loops = self.find_loops(bo, bc) if (fs.loops or any(p.anchor.startswith("loop") for p in fs.proofs)) else []
        for n, ls in fs.loops.items():
            if n >= len(loops):
                raise GenError("%s: @loop %d but body has %d loops" % (it.path, n, len(loops)))
            kw, lo, lc = loops[n]
            if ls.label:
                if toks[kw].text != "for":
                    raise GenError("%s: label on non-for loop" % it.path)
                # insert `label: ` after the depth-0 `in`
                d = kw + 1
                while not (toks[d].kind == "id" and toks[d].text == "in"):
                    if toks[d].kind == "punct" and toks[d].text in rlex.OPEN:
                        d = rlex.match_close(toks, d)
                    d += 1
                edits.append(Edit(toks[d].end, toks[d].end, " %s:" % ls.label)); self.count("E5")
            pos = toks[lo].start
            order = 0
            if ls.invariants:
                edits.append(Edit(pos, pos, "\n    invariant\n", None, order)); order += 1
                for m, c in enumerate(ls.invariants):
                    edits.append(Edit(pos, pos, "        " + c.text + ",\n",
                                      {"kind": "invariant", "fn": it.path, "loop": n, "idx": m, "tags": c.tags, "text": c.text, "where": c.line}, order))
                    order += 1
            if ls.decreases:
                edits.append(Edit(pos, pos, "    decreases %s,\n" % ls.decreases, None, order))
        if fs.assume_inv:
            inv = " && ".join("(%s)" % c.text for c in fs.assume_inv)
            edits.append(Edit(toks[bo].end, toks[bo].end, "\n proof { assume(%s); } /* type invariant, see @assume_inv */\n" % inv, None, 49))
            self.report.setdefault("assume_inv", []).append({"fn": it.path, "inv": inv})
        if fs.assume_pre:
            pre = " && ".join("(%s)" % c.text for c in fs.assume_pre)
            edits.append(Edit(toks[bo].end, toks[bo].end, "\n proof { assume(%s); } /* call-site precondition, see @assume_pre */\n" % pre, None, 50))
            self.report.setdefault("assume_pre", []).append({"fn": it.path, "pre": pre})
        for pn, p in enumerate(fs.proofs):
            meta = {"kind": "proof", "fn": it.path, "idx": pn, "tags": p.tags, "where": p.line}
            a = p.anchor
            text = "\n" + p.text.rstrip() + "\n"
            m = re.match(r"^loop(\d+)-(first|last|after)$", a)
            if a == "first":
                pos = toks[bo].end
            elif m:
                n = int(m.group(1))
                if n >= len(loops):
                    raise GenError("%s: proof anchor %s but body has %d loops" % (it.path, a, len(loops)))
                kw, lo, lc = loops[n]
                pos = {"first": toks[lo].end, "last": toks[lc].start, "after": toks[lc].end}[m.group(2)]
            elif a.startswith("before ") or a.startswith("after "):
                which, _, quoted = a.partition(" ")
                quoted = quoted.strip()
                if not (quoted.startswith("`") and quoted.endswith("`")):
                    raise GenError("%s: anchor text must be in backquotes: %s" % (it.path, a))
                s, e = self.find_anchor(it, bo, bc, quoted[1:-1])
                pos = toks[s].start if which == "before" else toks[e].end
            else:
                raise GenError("%s: unknown proof anchor %r" % (it.path, a))
            edits.append(Edit(pos, pos, text, meta, 100 + pn))
        return edits

    # ------------------------------------------------------------ driver
    def generate(self, out):
        # which types had a Debug impl (re-rendered as derive)
        self.debug_types = set()
        for it in rlex.walk(self.items):
            if it.kind == "impl" and it.impl_trait == "Debug":
                mod = it.path.rsplit("::", 1)[0] if "::" in it.path else ""
                ty = it.impl_type.split("<")[0]
                self.debug_types.add((mod + "::" if mod else "") + ty)
        for it in self.items:
            if it.kind == "mod":
                self.emit_item(out, it, False)
            elif it.kind in ("const", "static") :
                # crate-level consts (INTEGRITY_SALT_LENGTH)
                self.emit_item(out, it, False)
            elif it.kind == "use":
                text = " ".join(self.src[it.head_start:it.end].split())
                if text.startswith("pub use") and "std::prelude" not in text:
                    self.emit_item(out, it, False)
                else:
                    self.report["dropped"].append("use " + text)
            else:
                self.report["dropped"].append("%s %s" % (it.kind, it.path))
        unused = [p for p, f in self.unit.fns.items() if not f.used]
        if unused:
            # functions under contract that no longer exist in the tree (removed, renamed, inlined): their contracts cannot be stated;
            # the rest of the unit is still generated and verified, and the caller (check.py) treats them as having left the fragment
            self.report.setdefault("missing_fns", [])
            for p in unused:
                if p not in self.report["missing_fns"]:
                    self.report["missing_fns"].append(p)
