"""`verif check <ID>`: decide one property on /repo's current working tree."""
import os, sys, json, time, re, hashlib, subprocess
import workspace, verus, gen, vspec, fidelity, kani
from workspace import VERIF, ToolError

PROPS_FILE = os.path.join(VERIF, "spec", "properties.json")
BASELINE_FILE = os.path.join(VERIF, "spec", "baseline_obligations.json")
KNOWN_FILE = os.path.join(VERIF, "known_findings.json")
FNHASH_FILE = os.path.join(VERIF, "spec", "baseline_fnhash.json")


def fn_hashes(src, report):
    """hash of the token stream of every VERIFY function in the expanded source (to recognise changed functions)"""
    import rlex
    toks, items = rlex.parse_crate(src)
    want = set(report.get("verify", [])) | set(report.get("assume", [])) | set(report.get("assume_default", []))
    out = {}
    for it in rlex.walk(items):
        if it.kind == "fn" and it.path in want:
            out[it.path] = hashlib.sha1(" ".join(rlex.token_texts(src[it.head_start:it.end])).encode()).hexdigest()
    return out


def callers_of_new_functions(src, report, failures, res):
    """[(failing function, new uncontracted callee)] - new = absent from the committed function-hash baseline"""
    import rlex
    known = load_json(FNHASH_FILE, {})
    if not known:
        return []
    new = [f for f in report.get("assume_default", []) if f not in known]
    if not new:
        return []
    names = {f.split("::")[-1]: f for f in new}
    failing = set()
    for f in failures:
        b = f.get("body")
        if b is not None and b.get("kind") == "body":
            failing.add(b["fn"])
    failing -= set(d["fn"] for d in res.demoted)
    if not failing:
        return []
    toks, items = rlex.parse_crate(src)
    out = []
    for it in rlex.walk(items):
        if it.kind == "fn" and it.path in failing and it.body_open is not None:
            tt = rlex.token_texts(src[it.body_open:it.end])
            for i, t in enumerate(tt[:-1]):
                if t in names and tt[i + 1] == "(" and names[t] != it.path:
                    out.append((it.path, names[t]))
                    break
    return out


def load_json(path, default):
    if os.path.exists(path):
        return json.load(open(path))
    return default


def verus_fn_name(path):
    """my item path -> the name Verus prints in its function breakdown"""
    out, i = "", 0
    while i < len(path):
        if path[i] == "<":
            d, j = 0, i
            while j < len(path):
                if path[j] == "<": d += 1
                elif path[j] == ">":
                    d -= 1
                    if d == 0: break
                j += 1
            inner = path[i + 1:j]
            # `Trait<..> for Type<..>` -> Type
            k, d2, pos = 0, 0, -1
            while k < len(inner):
                if inner[k] == "<": d2 += 1
                elif inner[k] == ">": d2 -= 1
                elif d2 == 0 and inner.startswith(" for ", k): pos = k
                k += 1
            ty = inner[pos + 5:] if pos >= 0 else inner
            ty = re.sub(r"<.*$", "", ty).strip().lstrip("&").strip()
            out += ty
            i = j + 1
        else:
            out += path[i]; i += 1
    return "unit::" + out


class Result:
    def __init__(self, pid, tier, seed):
        self.pid, self.tier, self.seed = pid, tier, seed
        self.t0 = time.time()
        self.obligations = []       # dicts: id, engine, status(discharged|failed|undecided|bounded), detail
        self.violations = []        # dicts: obligation, replay, found_input
        self.undecided = []         # strings
        self.known = []             # strings
        self.log = {}
        self.assumptions = []
        self.trusted = []
        self.samples = []
        self.bounded = []
        self.functions = {}


def run_verus_part(res, cfg, src, report_extra, modules=None, prefix=""):
    """Generate the unit, check fidelity, run Verus on the property's modules, collect obligations tagged pid."""
    pid = res.pid
    unit = verus.load_unit()
    work = os.path.join(VERIF, ".work", os.environ.get("VERIF_WORK_TAG", "") + pid + ("-" + prefix.strip(":") if prefix else ""))
    os.makedirs(work, exist_ok=True)
    path = os.path.join(work, "unit.rs")
    if modules is None:
        modules = cfg.get("verus_modules", [])
    if not hasattr(res, "demoted"):
        res.demoted = []
    MAX_ATTEMPTS = 16      # Verus reports some front-end errors one at a time (e.g. nine impls expanded from one macro)
    for attempt in range(MAX_ATTEMPTS):
        report = {}
        out = verus.assemble(src, unit, report)
        text = out.text()
        open(path, "w").write(text)
        res.log["unit_sha256"] = hashlib.sha256(text.encode()).hexdigest()
        res.log["unit_bytes"] = out.nbytes
        # fidelity: undo every sentinel-marked change and compare token streams with the expanded source
        fid = fidelity.check(src, text, report)
        res.log["fidelity"] = fid
        if not fid["ok"]:
            raise ToolError("fidelity check failed: " + fid["error"])
        marks = out.marks
        if not prefix and attempt == 0:
            # known before Verus runs, so that the fallbacks for changed functions still run when Verus rejects the unit wholesale
            res.fn_hashes = fn_hashes(src, report)
            res.changed_fns = set(fn for fn, h in res.fn_hashes.items() if fn in load_json(FNHASH_FILE, {}) and load_json(FNHASH_FILE, {})[fn] != h)
        for mf in report.get("missing_fns", []):
            if mf not in [d["fn"] for d in res.demoted]:
                res.demoted.append({"fn": mf, "reason": "the function no longer exists in the tree (removed, renamed or inlined); its contract cannot be stated"})
        for la in report.get("lost_anchor", []):
            if la["fn"] not in [d["fn"] for d in res.demoted]:
                res.demoted.append(la)
        mine = [m for m in marks if pid in (m.get("tags") or [])]
        if prefix:
            mine = [m for m in mine if m["kind"] not in ("lemma", "specfn", "trusted") and mark_module(m) in modules]
        # every tagged mark must live in a module we verify
        needed = sorted(set(mark_module(m) for m in mine if m["kind"] not in ("specfn", "trusted")))
        for n in needed:
            if n not in modules:
                raise ToolError("configuration: property %s has obligations in module %s which is not in its verus_modules" % (pid, n))
        extra = []
        for m in modules:
            extra += ["--verify-module", m]
        rc, js, diags, stderr = verus.run_verus(path, res.log, extra=extra)
        failures, front, notes = verus.classify(diags, marks, js)
        ice = "thread 'rustc'" in stderr and "panicked" in stderr
        if not front and not ice:
            # A failing function that calls a NEW function without contract (e.g. code moved into a helper): a modular proof cannot follow
            # the call, so the failure says nothing about the code. Demote the caller (contract kept); its fallbacks decide.
            moved = callers_of_new_functions(src, report, failures, res)
            if moved and attempt < MAX_ATTEMPTS - 1:
                for fn, callee in moved:
                    fs = unit.fns.get(fn)
                    if fs is None:
                        continue
                    fs.mode = "assume"
                    fs.loops = {}; fs.proofs = []; fs.assume_pre = []; fs.assume_inv = []
                    res.demoted.append({"fn": fn, "reason": "calls the new function %s, which has no contract (a modular proof cannot follow the call)" % callee})
                for f in unit.fns.values():
                    f.used = False
                continue
            break
        # Functions whose body left the fragment Verus reads (iterator adapters, closures, ...): demote them to
        # ASSUME (contract kept, body dropped) so that everything else is still decided; their own obligations are undecided.
        culprits = []
        for f in front:
            b = f["body"]
            if b is not None and b["kind"] == "body" and b["fn"] not in culprits:
                culprits.append(b["fn"])
        if not culprits:
            # no usable location (e.g. a Verus internal error): demote the VERIFY functions whose text changed since the baseline
            known = load_json(FNHASH_FILE, {})
            cur = fn_hashes(src, report)
            for fn, h in cur.items():
                if fn in known and known[fn] != h and fn not in [d["fn"] for d in res.demoted]:
                    culprits.append(fn)
            if ice and culprits:
                front = [{"message": "Verus internal error while translating this function: " + (re.findall(r"panicked at [^\n]*\n([^\n]*)", stderr) or ["?"])[0], "rendered": "", "body": {"fn": c}} for c in culprits]
            elif culprits:
                # a front-end error located outside every function body (e.g. at a call site whose callee's signature changed)
                first = (front[0]["message"] if front else "front-end error").split("\n")[0]
                front = front + [{"message": "Verus front end rejected the unit after this function's text changed: " + first, "rendered": "", "body": {"fn": c}} for c in culprits]
        if not culprits or attempt == MAX_ATTEMPTS - 1:
            if ice:
                raise ToolError("Verus crashed (internal error) and no changed function could be isolated:\n" + stderr[:600])
            raise ToolError("Verus front end rejected the generated unit (unsupported construct / renamed item?):\n" + "\n".join((f["rendered"] or f["message"]) for f in front[:5]))
        for fn in culprits:
            fs = unit.fns.get(fn)
            if fs is None:
                fs = vspec.FnSpec(fn, "assume", [], "auto")
                unit.fns[fn] = fs
            fs.mode = "assume"
            fs.loops = {}; fs.proofs = []; fs.assume_pre = []; fs.assume_inv = []
            msg = [f["message"] for f in front if f["body"] is not None and f["body"]["fn"] == fn][0]
            res.demoted.append({"fn": fn, "reason": msg.split("\n")[0][:200]})
        for f in unit.fns.values():
            f.used = False
    if js is None:
        raise ToolError("Verus produced no JSON result:\n" + stderr[-2000:])
    vr = js.get("verification-results", {})
    res.log["verus_results"] = vr
    if vr.get("encountered-vir-error"):
        raise ToolError("Verus VIR error:\n" + stderr[-2000:])
    # a second look at failures: rerun once with a doubled rlimit to separate flakiness from a definite answer
    if failures:
        rc2, js2, diags2, stderr2 = verus.run_verus(path, {}, extra=extra, rlimit=120)
        failures2, front2, _ = verus.classify(diags2, marks, js2)
        ids2 = set()
        for f in failures2:
            m = f["clause"] or f["body"]
            if m: ids2.add(verus.obligation_id(m))
        keep = []
        for f in failures:
            m = f["clause"] or f["body"]
            oid = verus.obligation_id(m) if m else None
            if oid in ids2:
                if f["rlimit"]:
                    res.undecided.append("Verus resource limit exceeded twice (rlimit 30 and 120): %s (%s)" % (oid, f["message"]))
                else:
                    keep.append(f)
            else:
                # discharged by the second run with a larger resource limit: a proof is a proof; noted for stability tracking
                res.assumptions.append("obligation %s needed the larger Verus resource limit (rlimit 120) on this run" % oid)
        failures = keep
    if not prefix:
        res.fn_hashes = fn_hashes(src, report)
        known = load_json(FNHASH_FILE, {})
        res.changed_fns = set(fn for fn, h in res.fn_hashes.items() if fn in known and known[fn] != h)
    breakdown = verus.function_breakdown(js)
    res.log["verus_functions_checked"] = len(breakdown)
    # obligations of this property
    failed_by_id = {}
    for f in failures:
        m = f["clause"] or f["body"]
        if m is None:
            res.undecided.append("Verus error outside any known item: " + f["message"])
            continue
        tags = set(m.get("tags") or [])
        # a failed precondition at a call site inside a body: clause = callee's requires -> its tags
        oid = verus.obligation_id(m)
        if f["clause"] is not None and f["clause"]["kind"] == "requires" and f["body"] is not None:
            oid = "%s@%s" % (verus.obligation_id(f["clause"]), f["body"]["fn"])
            tags = tags | set(f["body"].get("tags") or [])
        failed_by_id.setdefault(oid, {"tags": tags, "msgs": []})["msgs"].append(f["rendered"] or f["message"])
    obls = []
    for m in mine:
        if m["kind"] in ("specfn", "trusted", "requires"):
            continue
        if m.get("assumed"):
            dem = [d for d in res.demoted if d["fn"] == m["fn"]]
            if dem:
                obls.append({"id": verus.obligation_id(m), "engine": "verus", "status": "left-fragment", "text": m.get("text", ""), "where": m.get("where", ""),
                             "verifier_output": "the function body is no longer in the fragment Verus reads: " + dem[0]["reason"]})
            else:
                res.trusted.append("ASSUMED contract (not discharged here): %s ensures %s" % (m["fn"], m.get("text", "")))
            continue
        oid = verus.obligation_id(m)
        fn = m["fn"]
        checked = True
        if m["kind"] in ("ensures", "invariant", "proof", "body"):
            checked = verus_fn_name(fn) in breakdown or any(k.endswith("::" + fn.split("::")[-1]) and verus_fn_name(fn).rsplit("::", 2)[0] in k for k in breakdown)
        st = "discharged"
        detail = m.get("text", "")
        if oid in failed_by_id:
            st = "failed"
        elif not checked and m["kind"] in ("ensures", "invariant", "proof", "body"):
            # function not in the SMT breakdown: trivially discharged bodies do appear; treat as undecided
            st = "notrun"
        obls.append({"id": oid, "engine": "verus", "status": st, "text": detail, "where": m.get("where", "")})
    # failures attributed to this property that are not one of `mine` (callee preconditions, safety of tagged fns)
    seen = set(o["id"] for o in obls)
    for oid, f in failed_by_id.items():
        if pid in f["tags"] and oid not in seen:
            obls.append({"id": oid, "engine": "verus", "status": "failed", "text": "", "where": ""})
    for o in obls:
        if o["status"] == "failed":
            o["verifier_output"] = "\n".join(failed_by_id.get(o["id"], {}).get("msgs", []))
    if prefix:
        for o in obls:
            o["id"] = prefix + o["id"]
    res.obligations += obls
    res.functions[prefix + "verify"] = sorted(set(m["fn"] for m in mine if m["kind"] in ("ensures", "invariant", "body", "proof")))
    if not prefix:
        res.functions["lemmas"] = sorted(set(m["fn"] for m in mine if m["kind"] == "lemma"))
        res.functions["assume_with_contract"] = [p for p in report["assume"]]
    res.log["unit_report"] = {k: (len(v) if isinstance(v, list) else v) for k, v in report.items()}
    times = {}
    for m in mine:
        if m["kind"] in ("body", "lemma"):
            nm = verus_fn_name(m["fn"]) if m["kind"] == "body" else None
            for k, v in breakdown.items():
                if (nm and k == nm) or (m["kind"] == "lemma" and k.endswith("::" + m["fn"].split("::")[-1])):
                    times[prefix + m["fn"]] = {"smt_us": v.get("time-micros", 0), "rlimit": v.get("rlimit", 0), "success": v.get("success")}
    res.log.setdefault("verus_function_times", {}).update(times)
    res.log["verus_smt_ms"] = js.get("times-ms", {}).get("smt", {}).get("smt-run", None)
    res.log["verus_total_ms"] = js.get("times-ms", {}).get("total", None)
    # scan for assumptions in the generated text
    res.log["assumption_scan"] = scan_assumptions(text)
    return out, report


def mark_module(m):
    fn = m["fn"]
    if m["kind"] in ("lemma", "specfn", "trusted"):
        return fn.split("::")[1]
    mods = []
    for p in fn.split("::")[:-1]:
        if p.startswith("<") or p[0].isupper():
            break
        mods.append(p)
    return "::".join(mods)


def run_canary(res, cfg, src):
    """Thorough tier vacuity guard: with `assert(false)` at the start of every VERIFY body of this property, every one must FAIL.
    A canary that verifies means the function's preconditions (or an assume) are contradictory and its proof is vacuous."""
    pid = res.pid
    unit = verus.load_unit()
    # demoted functions stay demoted
    for d in getattr(res, "demoted", []):
        if d["fn"] in unit.fns:
            unit.fns[d["fn"]].mode = "assume"; unit.fns[d["fn"]].loops = {}; unit.fns[d["fn"]].proofs = []
    report = {}
    out = verus.assemble(src, unit, report, canary=True)
    work = os.path.join(VERIF, ".work", pid + "-canary")
    os.makedirs(work, exist_ok=True)
    path = os.path.join(work, "unit.rs")
    open(path, "w").write(out.text())
    extra = []
    for m in cfg.get("verus_modules", []):
        extra += ["--verify-module", m]
    log = {}
    rc, js, diags, stderr = verus.run_verus(path, log, extra=extra)
    failures, front, notes = verus.classify(diags, out.marks, js)
    if front:
        res.undecided.append("canary run rejected by the Verus front end")
        return
    failed = set()
    for f in failures:
        if f["clause"] is not None and f["clause"]["kind"] == "canary":
            failed.add(f["clause"]["fn"])
    want = [m["fn"] for m in out.marks if m["kind"] == "canary" and pid in (m.get("tags") or [])]
    vac = [fn for fn in want if fn not in failed]
    res.log["canary"] = {"functions": len(want), "failed_as_required": len(want) - len(vac), "vacuous": vac, "verus_s": log.get("verus_s")}
    for fn in vac:
        res.undecided.append("vacuity canary: `assert(false)` at the start of %s VERIFIES - its preconditions/assumptions are contradictory" % fn)


def run_sensitivity(res, cfg):
    """Thorough tier: every recorded seeded change for this property (seeded/*/patch.diff, each confirmed to pass the repository's
    own tests while breaking the property) is applied to a scratch copy and must make the quick check report a VIOLATION."""
    import glob, subprocess, shutil, tempfile
    out = []
    for meta in sorted(glob.glob(os.path.join(VERIF, "seeded", "*", "meta.json"))):
        m = json.load(open(meta))
        if m.get("property") != res.pid:
            continue
        name = os.path.basename(os.path.dirname(meta))
        d = tempfile.mkdtemp(prefix="verif-sens-")
        try:
            repo = os.path.join(d, "repo")
            subprocess.run(["rsync", "-a", "--exclude", "/target", "--exclude", "/.git", workspace.REPO + "/", repo + "/"], check=True)
            ap = subprocess.run(["patch", "-p1", "-s", "-i", os.path.join(os.path.dirname(meta), "patch.diff")], cwd=repo, stdout=subprocess.PIPE, stderr=subprocess.STDOUT, text=True)
            if ap.returncode != 0:
                out.append({"seed": name, "result": "patch-does-not-apply"})
                continue
            env = dict(os.environ)
            env.update({"VERIF_REPO": repo, "VERIF_EVIDENCE_DIR": os.path.join(d, "ev"), "VERIF_WORK_TAG": "sens-"})
            p = subprocess.run([os.path.join(VERIF, "verif"), "check", res.pid, "--tier", "quick"], env=env, stdout=subprocess.PIPE, stderr=subprocess.STDOUT, text=True, timeout=7200)
            viol = [l for l in p.stdout.split("\n") if l.startswith("VIOLATION")]
            out.append({"seed": name, "exit": p.returncode, "violations": len(viol), "result": "caught" if p.returncode == 1 and viol else "SURVIVED"})
        finally:
            shutil.rmtree(d, ignore_errors=True)
    res.log["sensitivity"] = out
    for o in out:
        if o["result"] == "SURVIVED":
            res.undecided.append("sensitivity suite: seeded change %s is NOT detected by this check (the check is too weak there)" % o["seed"])
        elif o["result"] == "patch-does-not-apply":
            res.assumptions.append("sensitivity suite: seeded change %s no longer applies to the tree (skipped)" % o["seed"])


def prelude_inventory():
    """every unchecked assumption of the stand-in prelude and of the lemma files (axioms), by name"""
    import glob
    inv = []
    for f in sorted(glob.glob(os.path.join(VERIF, "spec", "prelude", "*.rs")) + glob.glob(os.path.join(VERIF, "spec", "lemmas", "*.rs"))):
        text = open(f).read()
        rel = os.path.relpath(f, VERIF)
        for m in re.finditer(r"assume_specification(?:<[^\[]*>)?\s*\[\s*(.+?)\s*\]\s*\(", text):
            inv.append("%s: assume_specification %s" % (rel, " ".join(m.group(1).split())))
        for m in re.finditer(r"#\[verifier::external_body\]\s*(?:#\[[^\]]*\]\s*)*(?:pub\s+)?(?:broadcast\s+)?(proof\s+)?fn\s+(\w+)", text):
            inv.append("%s: %s %s" % (rel, "axiom" if m.group(1) else "external_body fn", m.group(2)))
        for m in re.finditer(r"uninterp spec fn\s+(\w+)", text):
            inv.append("%s: uninterpreted %s" % (rel, m.group(1)))
    return sorted(set(inv))


def scan_assumptions(text):
    counts = {}
    for kw in ("assume(", "admit(", "#[verifier::external_body]", "assume_specification", "#[verifier::external]", "uninterp spec fn"):
        counts[kw] = text.count(kw)
    return counts


def decide(res, cfg):
    """Compare with the committed baseline / known findings, write replay files, return exit code."""
    pid = res.pid
    baseline = load_json(BASELINE_FILE, {})
    entry = baseline.get(pid, {})
    if isinstance(entry, list):
        entry = {"quick": entry}
    base_all = set(entry.get("quick", [])) | set(entry.get("thorough", []))
    base = set(entry.get(res.tier, entry.get("quick", [])))
    known = [k for k in load_json(KNOWN_FILE, []) if k.get("property") == pid]
    now = {o["id"]: o for o in res.obligations}
    # lost obligations
    demoted = set(d["fn"] for d in getattr(res, "demoted", []))
    lost = sorted(b for b in base if b not in now and b.split("#")[0] not in demoted)
    relevant = set(o["id"].replace("fast:", "").split("#")[0] for o in res.obligations) | set(b.replace("fast:", "").split("#")[0] for b in base_all)
    for d in getattr(res, "demoted", []):
        if d["fn"] not in relevant:
            # the function carries no obligation of this property: its leaving the fragment does not affect this check
            res.assumptions.append("function %s left the fragment Verus reads (%s); it carries no obligation of %s" % (d["fn"], d["reason"][:80], pid))
            continue
        covered = [o for o in res.obligations if o["engine"] in ("kani", "native-search") and d["fn"] in (o.get("covers") or [])]
        only_search = covered and all(o["engine"] == "native-search" for o in covered)
        if covered and all(o["status"] in ("discharged", "bounded") for o in covered):
            res.assumptions.append("function %s left the fragment Verus reads (%s); its contract is carried by Kani harness(es) %s on this run" % (d["fn"], d["reason"], ", ".join(o["id"] for o in covered)))
            for o in res.obligations:
                if o["status"] == "left-fragment" and o["id"].split("#")[0] == d["fn"]:
                    o["status"] = "bounded" if only_search else "discharged"; o["engine"] = "native-search(fallback)" if only_search else "kani(fallback)"
                    if only_search: o["bound"] = "; ".join(c.get("bound", "") for c in covered)
        elif not covered:
            res.undecided.append("function %s is no longer in the fragment Verus reads (%s) and no Kani harness covers its contract: undecided" % (d["fn"], d["reason"]))
    if lost:
        res.undecided.append("obligations in the committed baseline were not generated on this tree (lost anchor?): " + ", ".join(lost[:8]))
    rc = 0
    nviol = 0
    # a Verus failure carries no counterexample; if a Kani harness or native search covering the same function failed on this run,
    # its replayed counterexample is attached to the Verus obligation as the failing input
    donors = [o for o in res.obligations if o["status"] == "failed" and (o.get("replay") or {}).get("found_input")]
    for o in res.obligations:
        if o["status"] == "failed" and o["engine"] == "verus" and not o.get("replay"):
            fn = o["id"].replace("fast:", "").split("#")[0].split("@")[-1]
            for dn in donors:
                if fn in (dn.get("covers") or []):
                    rp = dict(dn["replay"]); rp["borrowed_from"] = dn["id"]
                    o["replay"] = rp
                    break
    for o in res.obligations:
        if o["status"] == "left-fragment":
            continue
        if o["status"] == "notrun":
            res.undecided.append("obligation not reached by the verifier: " + o["id"])
        if o["status"] != "failed":
            continue
        k = match_known(known, o)
        if k is not None:
            res.known.append("KNOWN-FINDING: property=%s %s" % (pid, k.get("what", k.get("obligation"))))
            o["status"] = "known-finding"
            continue
        replay = o.get("replay")
        if o["id"] in base_all or (replay and replay.get("found_input")):
            nviol += 1
            path = write_replay(res, o)
            suffix = "" if (replay and replay.get("found_input")) else " no-failing-input-found"
            res.violations.append("VIOLATION property=%s replay=%s%s" % (pid, path, suffix))
        else:
            res.undecided.append("obligation %s fails but is not in the committed baseline and no failing input was found: undecided, not a violation" % o["id"])
    if res.violations:
        return 1
    if res.undecided:
        return 2
    return 0


def match_known(known, o):
    for k in known:
        if k.get("status", "open") != "open":
            continue
        if k.get("obligation") == o["id"]:
            pats = k.get("witness_all")
            if not pats:
                return k
            # every individual verifier message of this obligation must be one of the known ones
            msgs = [m for m in (o.get("verifier_output") or "").split("\nerror") if m.strip()]
            if msgs and all(any(p in m for p in pats) for m in msgs):
                return k
    return None


def write_replay(res, o):
    d = os.path.join(VERIF, ".work", "replay")
    os.makedirs(d, exist_ok=True)
    name = "%s-%s.json" % (res.pid, hashlib.sha1(o["id"].encode()).hexdigest()[:10])
    path = os.path.join(d, name)
    json.dump({"property": res.pid, "obligation": o["id"], "engine": o["engine"], "contract": o.get("text", ""),
               "where": o.get("where", ""), "verifier_output": o.get("verifier_output", ""),
               "replay": o.get("replay"), "tier": res.tier}, open(path, "w"), indent=1)
    return path


def pick_samples(obls):
    """a few obligations of every engine, with their contract text (clauses first, then safety/lemma obligations)"""
    out = []
    by = {}
    for o in obls:
        by.setdefault(o["engine"], []).append(o)
    for eng, lst in by.items():
        lst = sorted(lst, key=lambda o: (0 if o.get("text") else 1))
        for o in lst[:6]:
            out.append({"obligation": o["id"], "engine": o["engine"], "contract": o.get("text", ""), "status": o["status"], "bound": o.get("bound")})
    return out


def write_evidence(res, cfg, rc):
    pid = res.pid
    n = len(res.obligations)
    disch = sum(1 for o in res.obligations if o["status"] == "discharged")
    bounded = [o for o in res.obligations if o["status"] == "bounded"]
    level = cfg.get("level", "proof")
    cov = {
        "obligations": n - len(bounded),
        "discharged": disch,
        "bounded_checks": [{"id": o["id"], "bound": o.get("bound", "")} for o in bounded],
        "known_findings": res.known,
        "undecided": res.undecided,
        "checker_cmd": res.log.get("verus_cmd", "") + (" ; " + res.log.get("kani_cmd", "") if res.log.get("kani_cmd") else ""),
        "trusted_base": sorted(set(res.trusted + cfg.get("trusted_base", []))) + prelude_inventory(),
        "functions_under_contract": res.functions,
        "samples": pick_samples(res.obligations),
        "by_engine": {e: {"obligations": sum(1 for o in res.obligations if o["engine"] == e),
                          "discharged": sum(1 for o in res.obligations if o["engine"] == e and o["status"] == "discharged")}
                      for e in sorted(set(o["engine"] for o in res.obligations))},
        "solver_time_ms": {"verus_smt": res.log.get("verus_smt_ms"), "verus_total": res.log.get("verus_total_ms"), "kani_s": res.log.get("kani_s")},
        "extraction": {"expand_cmd": res.log.get("expand_cmd"), "unit_sha256": res.log.get("unit_sha256"), "fidelity": res.log.get("fidelity"), "report": res.log.get("unit_report")},
        "assumption_scan": res.log.get("assumption_scan"),
        "verus_function_times": res.log.get("verus_function_times"),
        "vacuity_canary": res.log.get("canary"),
        "sensitivity_suite": res.log.get("sensitivity"),
        "fastmath_cfg_eval": res.log.get("fastmath_cfg_eval"),
        "explanation": cfg.get("explanation") or cfg.get("claim") or "see MANIFEST level_claimed",
        "exit_code": rc,
    }
    ev = {"property_id": pid, "tier": res.tier, "seed": res.seed, "level": level, "coverage": cov,
          "assumptions": cfg.get("assumptions", []) + res.assumptions, "wall_s": round(time.time() - res.t0, 2),
          "violations": len(res.violations)}
    evdir = os.environ.get("VERIF_EVIDENCE_DIR") or os.path.join(VERIF, "evidence")
    os.makedirs(evdir, exist_ok=True)
    json.dump(ev, open(os.path.join(evdir, pid + ".json"), "w"), indent=1)


def check(pid, tier, seed, update_baseline=False):
    props = load_json(PROPS_FILE, {})
    if pid not in props:
        print("UNDECIDED: no check configured for %s" % pid)
        return 2
    cfg = props[pid]
    res = Result(pid, tier, seed)
    rc = 2
    try:
        with workspace.Scratch(pid) as sc:
            sc.copy_repo()
            src = None
            if cfg.get("verus_modules"):
                try:
                    src = workspace.expand(sc, res.log)
                    run_verus_part(res, cfg, src, {})
                except (ToolError, gen.GenError) as e:
                    res.undecided.append("verus part: " + str(e))
            if tier == "thorough" and src is not None and cfg.get("verus_modules"):
                try:
                    run_canary(res, cfg, src)
                except (ToolError, gen.GenError) as e:
                    res.undecided.append("canary part: " + str(e))
            if cfg.get("fastmath") and src is not None:
                try:
                    import fastmath
                    raw = open(os.path.join(sc.repo, "src", "bigint.rs")).read()
                    src_fast, cfglog = fastmath.splice_bigint(src, raw)
                    res.log["fastmath_cfg_eval"] = cfglog
                    run_verus_part(res, cfg, src_fast, {}, modules=["bigint"], prefix="fast:")
                except (ToolError, gen.GenError, fastmath.CfgError) as e:
                    res.undecided.append("fast-math part: " + str(e))
            if cfg.get("kani"):
                ov = False
                # cheap bounded native searches first: a function they already refute needs no expensive fallback harness
                try:
                    ov = kani.run_searches(res, cfg, sc, tier, ov)
                except (ToolError, gen.GenError) as e:
                    res.undecided.append("native search part: " + str(e))
                try:
                    kani.run_harnesses(res, cfg, sc, tier, overlay_done=ov)
                except (ToolError, gen.GenError) as e:
                    res.undecided.append("kani part: " + str(e))
            for extra in cfg.get("scans", []):
                import scans
                scans.run(extra, res, sc)
        if update_baseline:
            # read-modify-write of two shared files: serialise concurrent runs
            import fcntl
            with open(os.path.join(VERIF, "spec", ".baseline.lock"), "w") as lk:
                fcntl.flock(lk, fcntl.LOCK_EX)
                if getattr(res, "fn_hashes", None):
                    known = load_json(FNHASH_FILE, {})
                    known.update(res.fn_hashes)
                    json.dump(known, open(FNHASH_FILE, "w"), indent=0, sort_keys=True)
                baseline = load_json(BASELINE_FILE, {})
                entry = baseline.get(pid, {})
                if isinstance(entry, list):
                    entry = {"quick": entry}
                entry[tier] = sorted(o["id"] for o in res.obligations if o["status"] in ("discharged", "bounded", "known-finding"))
                baseline[pid] = entry
                json.dump(baseline, open(BASELINE_FILE, "w"), indent=0, sort_keys=True)
        if tier == "thorough" and not os.environ.get("VERIF_WORK_TAG"):
            try:
                run_sensitivity(res, cfg)
            except Exception as e:
                res.undecided.append("sensitivity suite could not run: %s" % e)
        if not res.obligations:
            res.undecided.append("vacuity guard: no obligations were generated for this property")
        rc = decide(res, cfg)
    except (ToolError, gen.GenError) as e:
        res.undecided.append(str(e))
        rc = 2
    for k in res.known:
        print(k)
    for v in res.violations:
        print(v)
    for u in res.undecided:
        print("UNDECIDED: " + u.split("\n")[0][:300])
    n = len(res.obligations)
    d = sum(1 for o in res.obligations if o["status"] == "discharged")
    b = sum(1 for o in res.obligations if o["status"] == "bounded")
    print("%s tier=%s obligations=%d discharged=%d bounded=%d known=%d violations=%d undecided=%d wall=%.1fs exit=%d" % (
        pid, tier, n, d, b, len(res.known), len(res.violations), len(res.undecided), time.time() - res.t0, rc))
    write_evidence(res, cfg, rc)
    return rc
