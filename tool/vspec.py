"""Parser for /verif/spec/units/*.vspec — contracts keyed by item path.

Line oriented.  A directive starts with '@' in column 0; everything up to the
next directive belongs to it (multi-line clauses / proof text).  '#' in column 0
is a comment line.  See DESIGN.md Appendix C.

  @fn <path> [assume|verify|drop] [props=C01,C02]
  @returns <name>
  @requires[tags] <expr>
  @ensures[tags] <expr>
  @decreases <expr>                      (function-level, before any @loop)
  @loop <n> [label=<ident>]
  @invariant[tags] <expr>                (belongs to the last @loop)
  @decreases <expr>                      (after @loop: loop-level)
  @proof[tags] <anchor>                  anchor: first | loop<n>-first | loop<n>-last | before `text` | after `text`
     <verus statements>
  @assume_pre[tags] <expr>               trait-impl methods cannot carry `requires`: the body starts with `assume(expr)` and
                                         every ensures becomes `expr ==> ...`; each call site must assert expr (listed assumption)
  @assume_inv[tags] <expr>               type invariant of a parameter established elsewhere (e.g. by a Kani-proved constructor):
                                         the body starts with `assume(expr)`, ensures are NOT weakened (listed assumption)
  @attr <text>                           extra attribute on the fn, e.g. #[verifier::rlimit(50)]
  @end
  @drop <path-prefix>                    drop items whose path starts with this
  @module <path>                         include this module (and children)
  @default assume|drop                   mode for functions without an @fn block
  @shim <path>                           (reserved)
"""
import re


class Clause:
    def __init__(self, kind, tags, text, line):
        self.kind, self.tags, self.text, self.line = kind, tags, text.strip(), line


class LoopSpec:
    def __init__(self, n, label):
        self.n, self.label = n, label
        self.invariants = []
        self.decreases = None


class ProofIns:
    def __init__(self, anchor, tags, text, line):
        self.anchor, self.tags, self.text, self.line = anchor, tags, text, line


class FnSpec:
    def __init__(self, path, mode, props, line):
        self.path, self.mode, self.props, self.line = path, mode, props, line
        self.returns = None
        self.requires = []
        self.ensures = []
        self.decreases = None
        self.loops = {}
        self.proofs = []
        self.attrs = []
        self.assume_pre = []
        self.assume_inv = []
        self.used = False


class UnitSpec:
    def __init__(self):
        self.name = None
        self.modules = []
        self.drops = []
        self.default = "assume"
        self.fns = {}
        self.files = []


_dir = re.compile(r"^@([a-z_]+)(\[[^\]]*\])?\s*(.*)$", re.S)


def parse(paths):
    u = UnitSpec()
    for path in paths:
        u.files.append(path)
        lines = open(path).read().split("\n")
        chunks = []  # (lineno, text)
        cur = None
        for no, ln in enumerate(lines, 1):
            if ln.startswith("#"):
                continue
            if ln.startswith("@"):
                cur = [no, ln]
                chunks.append(cur)
            elif cur is not None:
                cur[1] += "\n" + ln
        fn = None
        loop = None
        for no, text in chunks:
            m = _dir.match(text)
            if not m:
                raise ValueError("%s:%d: bad directive" % (path, no))
            d, tags, rest = m.group(1), m.group(2), m.group(3)
            tags = [t.strip() for t in tags[1:-1].split(",") if t.strip()] if tags else None
            where = "%s:%d" % (path, no)
            if d == "unit":
                u.name = rest.strip()
            elif d == "module":
                u.modules.extend(rest.split())
            elif d == "drop":
                u.drops.extend(rest.split())
            elif d == "default":
                u.default = rest.strip()
            elif d == "fn":
                parts = rest.split()
                p = parts[0]
                # impl paths contain spaces: `key::<From<bigint::Integer> for Salt>::from`
                k = 1
                while p.count("<") != p.count(">") and k < len(parts):
                    p += " " + parts[k]; k += 1
                mode, props = "verify", []
                for a in parts[k:]:
                    if a in ("assume", "verify", "drop"):
                        mode = a
                    elif a.startswith("props="):
                        props = [x for x in a[6:].split(",") if x]
                    else:
                        raise ValueError("%s: unknown @fn argument %r" % (where, a))
                if p in u.fns:
                    raise ValueError("%s: duplicate @fn %s" % (where, p))
                fn = FnSpec(p, mode, props, where)
                u.fns[p] = fn
                loop = None
            elif d == "end":
                fn = None; loop = None
            else:
                if fn is None:
                    raise ValueError("%s: @%s outside @fn" % (where, d))
                if d == "returns":
                    fn.returns = rest.strip()
                elif d == "requires":
                    fn.requires.append(Clause("requires", tags if tags is not None else fn.props, rest, where))
                elif d == "ensures":
                    fn.ensures.append(Clause("ensures", tags if tags is not None else fn.props, rest, where))
                elif d == "assume_inv":
                    fn.assume_inv.append(Clause("assume_inv", tags if tags is not None else fn.props, rest, where))
                elif d == "assume_pre":
                    fn.assume_pre.append(Clause("assume_pre", tags if tags is not None else fn.props, rest, where))
                elif d == "attr":
                    fn.attrs.append(rest.strip())
                elif d == "loop":
                    parts = rest.split()
                    n = int(parts[0]); label = None
                    for a in parts[1:]:
                        if a.startswith("label="):
                            label = a[6:]
                    loop = LoopSpec(n, label)
                    fn.loops[n] = loop
                elif d == "invariant":
                    if loop is None:
                        raise ValueError("%s: @invariant outside @loop" % where)
                    loop.invariants.append(Clause("invariant", tags if tags is not None else fn.props, rest, where))
                elif d == "decreases":
                    if loop is None:
                        fn.decreases = rest.strip()
                    else:
                        loop.decreases = rest.strip()
                elif d == "proof":
                    first, _, body = rest.partition("\n")
                    fn.proofs.append(ProofIns(first.strip(), tags if tags is not None else fn.props, body, where))
                else:
                    raise ValueError("%s: unknown directive @%s" % (where, d))
    return u
