"""Scratch copy of /repo's working tree, macro expansion, cleanup."""
import os, subprocess, shutil, tempfile, hashlib, time

VERIF = os.path.dirname(os.path.dirname(os.path.abspath(__file__)))
REPO = os.environ.get("VERIF_REPO", "/repo")
CACHE = os.path.join(VERIF, ".cache")


class ToolError(Exception):
    """Anything that makes the run undecided (exit 2)."""


def env_offline():
    e = dict(os.environ)
    e["CARGO_NET_OFFLINE"] = "true"
    e.pop("RUSTUP_TOOLCHAIN", None)
    return e


class Scratch:
    def __init__(self, tag="w"):
        base = os.environ.get("VERIF_SCRATCH_BASE", "/tmp")
        self.dir = tempfile.mkdtemp(prefix="verif-%s-" % tag, dir=base)
        self.repo = os.path.join(self.dir, "repo")

    def copy_repo(self):
        subprocess.run(["rsync", "-a", "--delete", "--exclude", "/target", "--exclude", "/.git", REPO + "/", self.repo + "/"], check=True)

    def cleanup(self):
        shutil.rmtree(self.dir, ignore_errors=True)

    def __enter__(self):
        return self

    def __exit__(self, *a):
        if not os.environ.get("VERIF_KEEP"):
            self.cleanup()


def tree_hash(repo):
    h = hashlib.sha256()
    for root, dirs, files in os.walk(os.path.join(repo, "src")):
        dirs.sort()
        for f in sorted(files):
            p = os.path.join(root, f)
            h.update(p[len(repo):].encode()); h.update(open(p, "rb").read())
    for f in ("Cargo.toml", "Cargo.lock"):
        p = os.path.join(repo, f)
        if os.path.exists(p):
            h.update(open(p, "rb").read())
    return h.hexdigest()


def expand(scratch, log):
    """rustc's own macro-expanded rendering of the crate (lib, default features + matrix-card)."""
    t0 = time.time()
    os.makedirs(CACHE, exist_ok=True)
    env = env_offline()
    env["CARGO_TARGET_DIR"] = os.path.join(CACHE, "target-expand")
    cmd = ["cargo", "+nightly", "rustc", "--offline", "--lib", "--features", "matrix-card", "--", "-Zunpretty=expanded"]
    p = subprocess.run(cmd, cwd=scratch.repo, env=env, stdout=subprocess.PIPE, stderr=subprocess.PIPE, text=True)
    log["expand_cmd"] = " ".join(cmd)
    log["expand_s"] = round(time.time() - t0, 2)
    if p.returncode != 0:
        raise ToolError("macro expansion failed (the tree does not compile?):\n" + p.stderr[-4000:])
    return p.stdout
