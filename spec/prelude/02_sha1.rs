// ---------------------------------------------------------------------------
// Trusted base, part 3: sha-1 0.10 stand-in.  SHA-1 is an uninterpreted function
// `spec_sha1 : Seq<u8> -> Seq<u8>` with a 20-byte result; the builder absorbs exactly the
// bytes of its arguments in call order.
// ---------------------------------------------------------------------------
pub mod sha1 {
    #[allow(unused_imports)] use vstd::prelude::*;
    pub uninterp spec fn spec_sha1(m: Seq<u8>) -> Seq<u8>;
    pub uninterp spec fn str_bytes(s: &str) -> Seq<u8>;

    /// Trusted: the bytes of an ASCII `str` are its characters (UTF-8 encodes ASCII as itself).
    #[verifier::external_body]
    pub proof fn axiom_str_bytes_ascii(s: &str)
        requires forall|i: int| 0 <= i < s@.len() ==> (s@[i] as u32) < 128
        ensures str_bytes(s) == Seq::new(s@.len(), |i: int| s@[i] as u8)
    { }

    #[verifier::external_type_specification]
    #[verifier::external_body]
    pub struct ExUtf8Error(core::str::Utf8Error);

    /// Trusted (std documentation): every byte string whose bytes are all < 0x80 is valid UTF-8, and the
    /// resulting `str` has exactly those bytes.
    pub assume_specification<'a>[ core::str::from_utf8 ](v: &'a [u8]) -> (r: Result<&'a str, core::str::Utf8Error>)
        ensures (forall|i: int| 0 <= i < v@.len() ==> v@[i] < 128) ==> (r matches Ok(s) && str_bytes(s) == v@);

    /// Trusted: SHA-1 digests are 20 bytes long.
    #[verifier::external_body]
    pub proof fn axiom_sha1_len(m: Seq<u8>)
        ensures spec_sha1(m).len() == 20
    { }

    /// what `AsRef<[u8]>` hands to the hash
    pub trait HashInput { spec fn bytes(&self) -> Seq<u8>; }
    impl<const N: usize> HashInput for [u8; N] { open spec fn bytes(&self) -> Seq<u8> { self@ } }
    impl<'a, const N: usize> HashInput for &'a [u8; N] { open spec fn bytes(&self) -> Seq<u8> { (**self)@ } }
    impl<'a, 'b, const N: usize> HashInput for &'a &'b [u8; N] { open spec fn bytes(&self) -> Seq<u8> { (***self)@ } }
    impl<'a> HashInput for &'a [u8] { open spec fn bytes(&self) -> Seq<u8> { (**self)@ } }
    impl<'a> HashInput for &'a mut [u8] { open spec fn bytes(&self) -> Seq<u8> { (**self)@ } }
    impl<'a> HashInput for &'a str { open spec fn bytes(&self) -> Seq<u8> { str_bytes(*self) } }
    impl HashInput for Output20 { open spec fn bytes(&self) -> Seq<u8> { self.view() } }

    /// GenericArray<u8, U20>
    #[verifier::external_body]
    pub struct Output20 { _p: u8 }
    impl Output20 {
        pub uninterp spec fn view(&self) -> Seq<u8>;
        #[verifier::external_body]
        pub fn as_slice(&self) -> (r: &[u8]) ensures r@ == self.view() { unimplemented!() }
    }
    impl vstd::std_specs::convert::FromSpecImpl<Output20> for [u8; 20] {
        open spec fn obeys_from_spec() -> bool { false }
        open spec fn from_spec(o: Output20) -> [u8; 20] { arbitrary() }
    }
    impl From<Output20> for [u8; 20] {
        #[verifier::external_body]
        fn from(o: Output20) -> (r: [u8; 20]) ensures r@ == o.view() { unimplemented!() }
    }

    #[verifier::external_body]
    pub struct Sha1 { _p: u8 }
    pub trait Digest: Sized {
        spec fn absorbed(&self) -> Seq<u8>;
        fn new() -> (r: Self) ensures r.absorbed() == Seq::<u8>::empty();
        fn chain_update<T: HashInput>(self, data: T) -> (r: Self) ensures r.absorbed() == self.absorbed() + data.bytes();
        fn finalize(self) -> (r: Output20) ensures r.view() == spec_sha1(self.absorbed()), r.view().len() == 20;
    }
    impl Digest for Sha1 {
        uninterp spec fn absorbed(&self) -> Seq<u8>;
        #[verifier::external_body]
        fn new() -> (r: Sha1) { unimplemented!() }
        #[verifier::external_body]
        fn chain_update<T: HashInput>(self, data: T) -> (r: Sha1) { unimplemented!() }
        #[verifier::external_body]
        fn finalize(self) -> (r: Output20) { unimplemented!() }
    }
    pub mod digest {
        #[allow(unused_imports)] use vstd::prelude::*;
        pub trait FixedOutput: Sized {
            spec fn fixed_result(&self) -> Seq<u8>;
            fn finalize_fixed(self) -> (r: super::Output20) ensures r.view() == self.fixed_result(), r.view().len() == 20;
        }
        impl FixedOutput for super::Sha1 {
            open spec fn fixed_result(&self) -> Seq<u8> { super::spec_sha1(super::Digest::absorbed(self)) }
            #[verifier::external_body]
            fn finalize_fixed(self) -> (r: super::Output20) { unimplemented!() }
        }
    }
}
