// ---------------------------------------------------------------------------
// Trusted base, part 6: num-bigint 0.4 `BigInt` stand-in (feature srp-default-math).
// A BigInt is a mathematical integer `v()`.  Contracts from the num-bigint documentation:
//   from_bytes_le(Plus, b)  = little-endian value of b
//   to_bytes_le()           = (sign, minimal little-endian magnitude; `[0]` for zero)
//   + - *                   exact;  %  truncated (sign of the dividend), panics on zero divisor
//   modpow(e, m)            panics if e < 0 or m == 0; result = self^e mod m with the sign of m
//                           (so in [0, m) for m > 0, also for negative self)
// ---------------------------------------------------------------------------
pub mod num_bigint {
    #[allow(unused_imports)] use vstd::prelude::*;
    use vstd::std_specs::ops::*;
    use vstd::std_specs::cmp::*;
    use crate::verif_spec_int::*;
    pub enum Sign { Minus, NoSign, Plus }
    #[verifier::external_body]
    pub struct BigInt { _p: u8 }
    impl BigInt {
        pub uninterp spec fn v(&self) -> int;
        #[verifier::external_body]
        pub fn from_bytes_le(sign: Sign, bytes: &[u8]) -> (r: BigInt)
            ensures sign == Sign::Plus ==> r.v() == le_val(bytes@) { unimplemented!() }
        #[verifier::external_body]
        pub fn to_bytes_le(&self) -> (r: (Sign, Vec<u8>))
            ensures le_val(r.1@) == abs(self.v()), minimal_le(r.1@),
                    self.v() == 0 ==> r.1@ == seq![0u8],
        { unimplemented!() }
        #[verifier::external_body]
        pub fn modpow(&self, exponent: &BigInt, modulus: &BigInt) -> (r: BigInt)
            requires exponent.v() >= 0, modulus.v() != 0,
            ensures modulus.v() > 0 ==> r.v() == modpow_spec(self.v(), exponent.v(), modulus.v())
        { unimplemented!() }
    }
    impl vstd::std_specs::convert::FromSpecImpl<u8> for BigInt {
        open spec fn obeys_from_spec() -> bool { false }
        open spec fn from_spec(x: u8) -> BigInt { arbitrary() }
    }
    impl From<u8> for BigInt {
        #[verifier::external_body]
        fn from(x: u8) -> (r: BigInt) ensures r.v() == x as int { unimplemented!() }
    }
    impl PartialEqSpecImpl for BigInt {
        open spec fn obeys_eq_spec() -> bool { true }
        open spec fn eq_spec(&self, other: &BigInt) -> bool { self.v() == other.v() }
    }
    impl PartialEq for BigInt {
        #[verifier::external_body]
        fn eq(&self, other: &BigInt) -> (r: bool) { unimplemented!() }
    }
    impl MulSpecImpl<BigInt> for BigInt {
        open spec fn obeys_mul_spec() -> bool { false }
        open spec fn mul_req(self, rhs: BigInt) -> bool { true }
        open spec fn mul_spec(self, rhs: BigInt) -> BigInt { arbitrary() }
    }
    impl core::ops::Mul<BigInt> for BigInt { type Output = BigInt;
        #[verifier::external_body]
        fn mul(self, rhs: BigInt) -> (r: BigInt) ensures r.v() == self.v() * rhs.v() { unimplemented!() } }
    impl AddSpecImpl<BigInt> for BigInt {
        open spec fn obeys_add_spec() -> bool { false }
        open spec fn add_req(self, rhs: BigInt) -> bool { true }
        open spec fn add_spec(self, rhs: BigInt) -> BigInt { arbitrary() }
    }
    impl core::ops::Add<BigInt> for BigInt { type Output = BigInt;
        #[verifier::external_body]
        fn add(self, rhs: BigInt) -> (r: BigInt) ensures r.v() == self.v() + rhs.v() { unimplemented!() } }
    impl SubSpecImpl<BigInt> for BigInt {
        open spec fn obeys_sub_spec() -> bool { false }
        open spec fn sub_req(self, rhs: BigInt) -> bool { true }
        open spec fn sub_spec(self, rhs: BigInt) -> BigInt { arbitrary() }
    }
    impl core::ops::Sub<BigInt> for BigInt { type Output = BigInt;
        #[verifier::external_body]
        fn sub(self, rhs: BigInt) -> (r: BigInt) ensures r.v() == self.v() - rhs.v() { unimplemented!() } }
    impl RemSpecImpl<BigInt> for BigInt {
        open spec fn obeys_rem_spec() -> bool { false }
        open spec fn rem_req(self, rhs: BigInt) -> bool { rhs.v() != 0 }
        open spec fn rem_spec(self, rhs: BigInt) -> BigInt { arbitrary() }
    }
    impl core::ops::Rem<BigInt> for BigInt { type Output = BigInt;
        #[verifier::external_body]
        fn rem(self, rhs: BigInt) -> (r: BigInt) ensures r.v() == trunc_rem(self.v(), rhs.v()) { unimplemented!() } }
    impl<'a> RemSpecImpl<BigInt> for &'a BigInt {
        open spec fn obeys_rem_spec() -> bool { false }
        open spec fn rem_req(self, rhs: BigInt) -> bool { rhs.v() != 0 }
        open spec fn rem_spec(self, rhs: BigInt) -> BigInt { arbitrary() }
    }
    impl<'a> core::ops::Rem<BigInt> for &'a BigInt { type Output = BigInt;
        #[verifier::external_body]
        fn rem(self, rhs: BigInt) -> (r: BigInt) ensures r.v() == trunc_rem(self.v(), rhs.v()) { unimplemented!() } }
}
