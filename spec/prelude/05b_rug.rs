// ---------------------------------------------------------------------------
// Trusted base, part 6b: rug 1.x `Integer` stand-in (feature srp-fast-math), from the rug documentation.
// rug cannot be built or run in this sandbox (gmp-mpfr-sys needs m4), so these contracts are exactly as strong as the reading
// of its documentation:
//   from_digits(bytes, Order::LsfLe) = little-endian value;  to_digits::<u8>(Order::LsfLe) = minimal little-endian magnitude,
//   EMPTY for zero (num-bigint gives [0]);  + - * exact;  % truncated;  secure_pow_mod(e, m): "Panics if exponent <= 0 or if
//   modulo is even" (rug/src/ext/xmpz.rs), result = self^e mod m in [0, m).
// ---------------------------------------------------------------------------
pub mod rug {
    #[allow(unused_imports)] use vstd::prelude::*;
    use vstd::std_specs::ops::*;
    use vstd::std_specs::cmp::*;
    use crate::verif_spec_int::*;
    pub mod integer { pub enum Order { Lsf, LsfLe, LsfBe, Msf, MsfLe, MsfBe } }
    use integer::Order;
    #[verifier::external_body]
    pub struct Integer { _p: u8 }
    impl Integer {
        pub uninterp spec fn v(&self) -> int;
        #[verifier::external_body]
        pub fn from_digits(digits: &[u8], order: Order) -> (r: Integer)
            ensures order == Order::LsfLe ==> r.v() == le_val(digits@) { unimplemented!() }
        #[verifier::external_body]
        pub fn to_digits(&self, order: Order) -> (r: Vec<u8>)
            ensures order == Order::LsfLe ==> le_val(r@) == abs(self.v()) && minimal_le(r@) && (self.v() == 0 ==> r@.len() == 0)
        { unimplemented!() }
        #[verifier::external_body]
        pub fn secure_pow_mod(self, exponent: &Integer, modulo: &Integer) -> (r: Integer)
            requires exponent.v() > 0, modulo.v() % 2 != 0,
            ensures modulo.v() > 0 ==> r.v() == modpow_spec(self.v(), exponent.v(), modulo.v())
        { unimplemented!() }
    }
    impl vstd::std_specs::convert::FromSpecImpl<u8> for Integer {
        open spec fn obeys_from_spec() -> bool { false }
        open spec fn from_spec(x: u8) -> Integer { arbitrary() }
    }
    impl From<u8> for Integer {
        #[verifier::external_body]
        fn from(x: u8) -> (r: Integer) ensures r.v() == x as int { unimplemented!() }
    }
    impl PartialEqSpecImpl for Integer {
        open spec fn obeys_eq_spec() -> bool { true }
        open spec fn eq_spec(&self, other: &Integer) -> bool { self.v() == other.v() }
    }
    impl PartialEq for Integer {
        #[verifier::external_body]
        fn eq(&self, other: &Integer) -> (r: bool) { unimplemented!() }
    }
    impl MulSpecImpl<Integer> for Integer {
        open spec fn obeys_mul_spec() -> bool { false }
        open spec fn mul_req(self, rhs: Integer) -> bool { true }
        open spec fn mul_spec(self, rhs: Integer) -> Integer { arbitrary() }
    }
    impl core::ops::Mul<Integer> for Integer { type Output = Integer;
        #[verifier::external_body]
        fn mul(self, rhs: Integer) -> (r: Integer) ensures r.v() == self.v() * rhs.v() { unimplemented!() } }
    impl AddSpecImpl<Integer> for Integer {
        open spec fn obeys_add_spec() -> bool { false }
        open spec fn add_req(self, rhs: Integer) -> bool { true }
        open spec fn add_spec(self, rhs: Integer) -> Integer { arbitrary() }
    }
    impl core::ops::Add<Integer> for Integer { type Output = Integer;
        #[verifier::external_body]
        fn add(self, rhs: Integer) -> (r: Integer) ensures r.v() == self.v() + rhs.v() { unimplemented!() } }
    impl SubSpecImpl<Integer> for Integer {
        open spec fn obeys_sub_spec() -> bool { false }
        open spec fn sub_req(self, rhs: Integer) -> bool { true }
        open spec fn sub_spec(self, rhs: Integer) -> Integer { arbitrary() }
    }
    impl core::ops::Sub<Integer> for Integer { type Output = Integer;
        #[verifier::external_body]
        fn sub(self, rhs: Integer) -> (r: Integer) ensures r.v() == self.v() - rhs.v() { unimplemented!() } }
    impl RemSpecImpl<Integer> for Integer {
        open spec fn obeys_rem_spec() -> bool { false }
        open spec fn rem_req(self, rhs: Integer) -> bool { rhs.v() != 0 }
        open spec fn rem_spec(self, rhs: Integer) -> Integer { arbitrary() }
    }
    impl core::ops::Rem<Integer> for Integer { type Output = Integer;
        #[verifier::external_body]
        fn rem(self, rhs: Integer) -> (r: Integer) ensures r.v() == trunc_rem(self.v(), rhs.v()) { unimplemented!() } }
    impl<'a> RemSpecImpl<Integer> for &'a Integer {
        open spec fn obeys_rem_spec() -> bool { false }
        open spec fn rem_req(self, rhs: Integer) -> bool { rhs.v() != 0 }
        open spec fn rem_spec(self, rhs: Integer) -> Integer { arbitrary() }
    }
    impl<'a> core::ops::Rem<Integer> for &'a Integer { type Output = Integer;
        #[verifier::external_body]
        fn rem(self, rhs: Integer) -> (r: Integer) ensures r.v() == trunc_rem(self.v(), rhs.v()) { unimplemented!() } }
}
