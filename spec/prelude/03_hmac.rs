// ---------------------------------------------------------------------------
// Trusted base, part 4: hmac 0.12 stand-in.  HMAC-SHA1 is an uninterpreted function of
// (key, message); any key length is accepted; streaming updates concatenate.
// ---------------------------------------------------------------------------
pub mod hmac {
    #[allow(unused_imports)] use vstd::prelude::*;
    use crate::sha1::Output20;
    pub uninterp spec fn spec_hmac_sha1(key: Seq<u8>, m: Seq<u8>) -> Seq<u8>;

    #[verifier::external_body]
    pub proof fn axiom_hmac_len(key: Seq<u8>, m: Seq<u8>)
        ensures spec_hmac_sha1(key, m).len() == 20
    { }

    #[derive(Debug)]
    pub struct InvalidLength {}
    #[verifier::external_body]
    #[verifier::reject_recursive_types(D)]
    pub struct Hmac<D> { _p: core::marker::PhantomData<D> }
    #[verifier::external]
    impl<D> core::fmt::Debug for Hmac<D> { fn fmt(&self, f: &mut core::fmt::Formatter<'_>) -> core::fmt::Result { Ok(()) } }
    #[verifier::external]
    impl<D> Clone for Hmac<D> { fn clone(&self) -> Self { unimplemented!() } }
    /// CtOutput
    #[verifier::external_body]
    pub struct MacOutput { _p: u8 }
    impl MacOutput {
        pub uninterp spec fn view(&self) -> Seq<u8>;
        #[verifier::external_body]
        pub fn into_bytes(self) -> (r: Output20) ensures r.view() == self.view() { unimplemented!() }
    }
    pub trait Mac: Sized {
        spec fn key(&self) -> Seq<u8>;
        spec fn absorbed(&self) -> Seq<u8>;
        fn new_from_slice(key: &[u8]) -> (r: Result<Self, InvalidLength>)
            ensures r.is_ok(), r.unwrap().key() == key@, r.unwrap().absorbed() == Seq::<u8>::empty();
        fn update(&mut self, data: &[u8])
            ensures final(self).key() == old(self).key(), final(self).absorbed() == old(self).absorbed() + data@;
        fn finalize(self) -> (r: MacOutput)
            ensures r.view() == spec_hmac_sha1(self.key(), self.absorbed()), r.view().len() == 20;
    }
    impl<D> Mac for Hmac<D> {
        uninterp spec fn key(&self) -> Seq<u8>;
        uninterp spec fn absorbed(&self) -> Seq<u8>;
        #[verifier::external_body]
        fn new_from_slice(key: &[u8]) -> (r: Result<Self, InvalidLength>) { unimplemented!() }
        #[verifier::external_body]
        fn update(&mut self, data: &[u8]) { unimplemented!() }
        #[verifier::external_body]
        fn finalize(self) -> (r: MacOutput) { unimplemented!() }
    }
    pub mod digest {
        #[allow(unused_imports)] use vstd::prelude::*;
        pub use crate::sha1::digest::FixedOutput;
        impl<D> FixedOutput for super::Hmac<D> {
            open spec fn fixed_result(&self) -> Seq<u8> { super::spec_hmac_sha1(super::Mac::key(self), super::Mac::absorbed(self)) }
            #[verifier::external_body]
            fn finalize_fixed(self) -> (r: crate::sha1::Output20) { unimplemented!() }
        }
    }
}
