// ---------------------------------------------------------------------------
// Trusted base, part 2: rand 0.8 stand-in.  The only thing assumed is *provenance*:
// every byte / integer handed out by the generator satisfies the uninterpreted predicate
// `rng_*`, and nothing else can establish that predicate (C15).  No statistical claim.
// ---------------------------------------------------------------------------
pub mod rand {
    #[allow(unused_imports)] use vstd::prelude::*;
    pub uninterp spec fn rng_bytes(s: Seq<u8>) -> bool;
    pub uninterp spec fn rng_u32(x: u32) -> bool;
    pub uninterp spec fn rng_u64(x: u64) -> bool;
    pub uninterp spec fn rng_digit(x: u8) -> bool;

    #[verifier::external_body]
    pub struct ThreadRng { _p: u8 }
    #[verifier::external_body]
    pub fn thread_rng() -> ThreadRng { unimplemented!() }

    pub trait RngCore {
        fn fill_bytes(&mut self, dest: &mut [u8])
            ensures final(dest)@.len() == old(dest)@.len(), rng_bytes(final(dest)@);
        fn next_u32(&mut self) -> (r: u32)
            ensures rng_u32(r);
    }
    impl RngCore for ThreadRng {
        #[verifier::external_body]
        fn fill_bytes(&mut self, dest: &mut [u8]) { unimplemented!() }
        #[verifier::external_body]
        fn next_u32(&mut self) -> (r: u32) { unimplemented!() }
    }

    /// `rand::random::<T>()` for the two instantiations the crate uses
    pub trait VerifRandom: Sized { spec fn drawn(self) -> bool; }
    impl VerifRandom for u32 { open spec fn drawn(self) -> bool { rng_u32(self) } }
    impl VerifRandom for u64 { open spec fn drawn(self) -> bool { rng_u64(self) } }
    #[verifier::external_body]
    pub fn random<T: VerifRandom>() -> (r: T)
        ensures r.drawn()
    { unimplemented!() }

    pub mod distributions {
        #[allow(unused_imports)] use vstd::prelude::*;
        #[verifier::external_body]
        #[verifier::reject_recursive_types(T)]
        pub struct Uniform<T> { _p: core::marker::PhantomData<T> }
        impl Uniform<u8> {
            pub uninterp spec fn lo(&self) -> u8;
            pub uninterp spec fn hi(&self) -> u8;
        }
        impl From<core::ops::RangeInclusive<u8>> for Uniform<u8> {
            #[verifier::external_body]
            fn from(r: core::ops::RangeInclusive<u8>) -> (u: Uniform<u8>)
                ensures u.lo() == r@.start, u.hi() == r@.end
            { unimplemented!() }
        }
    }
    pub mod prelude {
        #[allow(unused_imports)] use vstd::prelude::*;
        use super::distributions::Uniform;
        use super::{ThreadRng, rng_digit};
        pub trait Distribution<T> {
            fn sample(&self, rng: &mut ThreadRng) -> T;
        }
        impl Distribution<u8> for Uniform<u8> {
            #[verifier::external_body]
            fn sample(&self, rng: &mut ThreadRng) -> (r: u8)
                ensures self.lo() <= r <= self.hi(), rng_digit(r)
            { unimplemented!() }
        }
    }
}
