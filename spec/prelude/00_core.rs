// ---------------------------------------------------------------------------
// Trusted base, part 1: core/alloc functions vstd does not specify.
// Each `assume_specification` / `external_body` below is an unchecked assumption
// taken from the std documentation of the function it names.
// ---------------------------------------------------------------------------
pub mod verif_prelude {
    #[allow(unused_imports)] use vstd::prelude::*;
    #[allow(unused_imports)] use core::slice::IterMut;
    pub use crate::verif_spec::*;

    // `for x in data` with data: &mut [T]   ==   data.iter_mut()
    pub assume_specification<'a, T>[ <&'a mut [T] as core::iter::IntoIterator>::into_iter ](s: &'a mut [T]) -> (r: IterMut<'a, T>)
        ensures call_ensures(<[T]>::iter_mut, (s,), r);

    pub assume_specification<T>[ <[T]>::swap ](s: &mut [T], a: usize, b: usize)
        requires a < old(s)@.len(), b < old(s)@.len(),
        ensures final(s)@ == old(s)@.update(a as int, old(s)@[b as int]).update(b as int, old(s)@[a as int]);

    pub assume_specification<T: Clone>[ <[T]>::clone_from_slice ](s: &mut [T], src: &[T])
        requires old(s)@.len() == src@.len(),
        ensures final(s)@ == src@;

    pub assume_specification<T: Clone>[ <[T]>::to_vec ](s: &[T]) -> (r: Vec<T>)
        ensures r@ == s@;

    pub assume_specification<T, const N: usize>[ <[T; N]>::as_mut_slice ](a: &mut [T; N]) -> (r: &mut [T])
        ensures r@ == old(a)@, final(r)@ == final(a)@;

    pub assume_specification<T>[ <[T]>::reverse ](s: &mut [T])
        ensures final(s)@ == old(s)@.reverse();

    #[verifier::external_type_specification]
    #[verifier::external_body]
    pub struct ExTryFromSliceError(core::array::TryFromSliceError);

    // `slice.try_into()` to a fixed-size array: Ok iff the lengths agree, and then the same elements
    // E4 shim for `slice.try_into()` to a fixed-size array (std: Ok iff the lengths agree, same elements).
    // vstd's TryFromSpecImpl cannot be implemented for arrays from outside vstd (orphan rule).
    pub trait VerifTryIntoArray: Sized {
        spec fn elems(self) -> Seq<u8>;
        fn verif_try_into<const N: usize>(self) -> (r: Result<[u8; N], core::array::TryFromSliceError>)
            ensures r.is_ok() == (self.elems().len() == N), r matches Ok(a) ==> a@ == self.elems();
    }
    impl<'a> VerifTryIntoArray for &'a [u8] {
        open spec fn elems(self) -> Seq<u8> { self@ }
        #[verifier::external_body]
        fn verif_try_into<const N: usize>(self) -> (r: Result<[u8; N], core::array::TryFromSliceError>)
        { core::convert::TryInto::try_into(self) }
    }

    // E4 byte-order shims: the std functions carry an anonymous const in their signature and cannot
    // take an assume_specification; the shim bodies call them, the postconditions are the positional
    // definition of big/little endian.
    pub trait VerifBytes: Sized {
        type Out;
        fn verif_to_be_bytes(self) -> Self::Out;
        fn verif_to_le_bytes(self) -> Self::Out;
        fn verif_from_be_bytes(a: Self::Out) -> Self;
        fn verif_from_le_bytes(a: Self::Out) -> Self;
    }
    impl VerifBytes for u16 {
        type Out = [u8; 2];
        #[verifier::external_body]
        fn verif_to_be_bytes(self) -> (r: [u8; 2]) ensures r@ == be16(self) { self.to_be_bytes() }
        #[verifier::external_body]
        fn verif_to_le_bytes(self) -> (r: [u8; 2]) ensures r@ == le16(self) { self.to_le_bytes() }
        #[verifier::external_body]
        fn verif_from_be_bytes(a: [u8; 2]) -> (r: u16) ensures be16(r) == a@ { u16::from_be_bytes(a) }
        #[verifier::external_body]
        fn verif_from_le_bytes(a: [u8; 2]) -> (r: u16) ensures le16(r) == a@ { u16::from_le_bytes(a) }
    }
    impl VerifBytes for u32 {
        type Out = [u8; 4];
        #[verifier::external_body]
        fn verif_to_be_bytes(self) -> (r: [u8; 4]) ensures r@ == be32(self) { self.to_be_bytes() }
        #[verifier::external_body]
        fn verif_to_le_bytes(self) -> (r: [u8; 4]) ensures r@ == le32(self) { self.to_le_bytes() }
        #[verifier::external_body]
        fn verif_from_be_bytes(a: [u8; 4]) -> (r: u32) ensures be32(r) == a@ { u32::from_be_bytes(a) }
        #[verifier::external_body]
        fn verif_from_le_bytes(a: [u8; 4]) -> (r: u32) ensures le32(r) == a@ { u32::from_le_bytes(a) }
    }
    impl VerifBytes for u64 {
        type Out = [u8; 8];
        #[verifier::external_body]
        fn verif_to_be_bytes(self) -> (r: [u8; 8]) ensures r@.len() == 8 { self.to_be_bytes() }
        #[verifier::external_body]
        fn verif_to_le_bytes(self) -> (r: [u8; 8]) ensures r@ == le64(self) { self.to_le_bytes() }
        #[verifier::external_body]
        fn verif_from_be_bytes(a: [u8; 8]) -> (r: u64) { u64::from_be_bytes(a) }
        #[verifier::external_body]
        fn verif_from_le_bytes(a: [u8; 8]) -> (r: u64) ensures le64(r) == a@ { u64::from_le_bytes(a) }
    }
}
