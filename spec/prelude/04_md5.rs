// ---------------------------------------------------------------------------
// Trusted base, part 5: md5 0.7 stand-in (uninterpreted MD5, streaming concatenates).
// ---------------------------------------------------------------------------
pub mod md5 {
    #[allow(unused_imports)] use vstd::prelude::*;
    pub uninterp spec fn spec_md5(m: Seq<u8>) -> Seq<u8>;
    pub struct Digest(pub [u8; 16]);
    #[verifier::external_body]
    pub struct Context { _p: u8 }
    impl Context {
        pub uninterp spec fn absorbed(&self) -> Seq<u8>;
        #[verifier::external_body]
        pub fn new() -> (r: Context) ensures r.absorbed() == Seq::<u8>::empty() { unimplemented!() }
        #[verifier::external_body]
        pub fn consume<T: crate::sha1::HashInput>(&mut self, data: T)
            ensures final(self).absorbed() == old(self).absorbed() + data.bytes() { unimplemented!() }
        #[verifier::external_body]
        pub fn compute(self) -> (r: Digest) ensures r.0@ == spec_md5(self.absorbed()) { unimplemented!() }
    }
}
