// ---------------------------------------------------------------------------
// Trusted base, part 7: std::io::{Read, Write} stand-ins, from the std documentation of
// `read_exact` / `write_all`.
//  * A reader is described by the ghost byte string `stream()` it is able to deliver before it
//    fails (end of file or any error kind).  `read_exact(buf)` succeeds iff at least buf.len()
//    bytes are available - however the underlying reader fragments them and however often it
//    reports `Interrupted` (read_exact retries those) - then `buf` holds exactly those bytes and
//    the stream advanced by buf.len().  On failure nothing is known about `buf` or the reader.
//  * A writer either accepts the whole buffer (sink extended by it) or reports an error (`write_all`); a single `write` / `read`
//    may transfer any prefix.
// ---------------------------------------------------------------------------
pub mod std_io {
    #[allow(unused_imports)] use vstd::prelude::*;
    #[verifier::external_body]
    #[derive(Debug)]
    pub struct Error { _p: u8 }
    pub type Result<T> = core::result::Result<T, Error>;
    pub trait Write {
        spec fn will_fail(&self) -> bool;
        spec fn sink(&self) -> Seq<u8>;
        fn write_all(&mut self, buf: &[u8]) -> (r: Result<()>)
            ensures r.is_err() == old(self).will_fail(),
                    r.is_ok() ==> final(self).sink() == old(self).sink() + buf@;
        // `write` may accept any prefix of the buffer (std documentation: "may write only part of the buffer"); whether it reports an
        // error is not tied to will_fail() (a writer that would fail later can still accept a first fragment)
        fn write(&mut self, buf: &[u8]) -> (r: Result<usize>)
            ensures r matches Ok(n) ==> n <= buf@.len() && final(self).sink() == old(self).sink() + buf@.subrange(0, n as int);
        fn flush(&mut self) -> (r: Result<()>)
            ensures final(self).sink() == old(self).sink();
    }
    pub trait Read {
        spec fn stream(&self) -> Seq<u8>;
        fn read_exact(&mut self, buf: &mut [u8]) -> (r: Result<()>)
            ensures r.is_err() == (old(self).stream().len() < old(buf)@.len()),
                    final(buf)@.len() == old(buf)@.len(),
                    r.is_ok() ==> final(buf)@ == old(self).stream().subrange(0, old(buf)@.len() as int),
                    r.is_ok() ==> final(self).stream() == old(self).stream().subrange(old(buf)@.len() as int, old(self).stream().len() as int);
        // `read` may deliver any number of bytes up to the buffer length (std documentation), 0 included
        fn read(&mut self, buf: &mut [u8]) -> (r: Result<usize>)
            ensures final(buf)@.len() == old(buf)@.len(),
                    r matches Ok(n) ==> n <= old(buf)@.len() && n <= old(self).stream().len()
                        && final(buf)@.subrange(0, n as int) == old(self).stream().subrange(0, n as int)
                        && final(self).stream() == old(self).stream().subrange(n as int, old(self).stream().len() as int);
    }
}
