// ---------------------------------------------------------------------------
// Trusted base, part 7: std::io::{Read, Write} stand-ins, from the std documentation of
// `read_exact` / `write_all`.
//  * A reader is described by the ghost byte string `stream()` it is able to deliver before it
//    fails (end of file or any error kind).  `read_exact(buf)` succeeds iff at least buf.len()
//    bytes are available - however the underlying reader fragments them and however often it
//    reports `Interrupted` (read_exact retries those) - then `buf` holds exactly those bytes and
//    the stream advanced by buf.len().  On failure nothing is known about `buf` or the reader.
//  * A writer either accepts the whole buffer (sink extended by it) or reports an error.
// ---------------------------------------------------------------------------
pub mod std_io {
    #[allow(unused_imports)] use vstd::prelude::*;
    #[verifier::external_body]
    #[derive(Debug)]
    pub struct Error { _p: u8 }
    pub type Result<T> = core::result::Result<T, Error>;
    pub trait Write {
        spec fn will_fail(&self) -> bool;
        spec fn sink(&self) -> Seq<u8>;
        fn write_all(&mut self, buf: &[u8]) -> (r: Result<()>)
            ensures r.is_err() == old(self).will_fail(),
                    r.is_ok() ==> final(self).sink() == old(self).sink() + buf@;
    }
    pub trait Read {
        spec fn stream(&self) -> Seq<u8>;
        fn read_exact(&mut self, buf: &mut [u8]) -> (r: Result<()>)
            ensures r.is_err() == (old(self).stream().len() < old(buf)@.len()),
                    final(buf)@.len() == old(buf)@.len(),
                    r.is_ok() ==> final(buf)@ == old(self).stream().subrange(0, old(buf)@.len() as int),
                    r.is_ok() ==> final(self).stream() == old(self).stream().subrange(old(buf)@.len() as int, old(self).stream().len() as int);
    }
}
