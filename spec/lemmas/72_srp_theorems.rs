// props: C01 C02 C03 C05
// ---------------------------------------------------------------------------
// Theorems over the API contracts: honest parties agree (C01), proofs bind every handshake value (C02),
// reconnect proofs are single-use under stated hypotheses (C05).
// ---------------------------------------------------------------------------
pub mod verif_spec_srp_theorems {
    #[allow(unused_imports)] use vstd::prelude::*;
    use crate::verif_spec_int::*;
    use crate::verif_spec_srp::*;
    use crate::verif_spec_srp_api::*;
    use crate::verif_spec_key::*;
    use crate::sha1::spec_sha1;

    /// ASSUMED here: the constant PRECALCULATED_XOR_HASH in srp_internal.rs equals H(N) xor H(7).
    /// An uninterpreted hash cannot evaluate SHA-1; the equality is discharged outside Verus
    /// (Kani harness c03_precalculated_xor_hash executes the crate's real SHA-1 on the concrete inputs).
    #[verifier::external_body]
    pub proof fn axiom_precalculated_xor_hash()
        ensures precalculated_xor_hash() == srp_xor_hash(n_le(), 7)
    { }

    /// C01. For every username/password text U, P, salt, client private key a and server private key b
    /// (no restriction: every class of S - low-order zero bytes, high-order zero bytes - and a negative B - k v are included,
    /// because nothing in the proof splits on them):
    /// the client built by SrpClientChallenge::new against the server's B, and the server's into_server on the client's A and M1,
    /// derive the same session key, the server accepts M1, and the client accepts the server's M2.
    pub proof fn lemma_c01_honest_agreement(u: Seq<u8>, p: Seq<u8>, salt: Seq<u8>, a: Seq<u8>, b: Seq<u8>)
        ensures ({
            let v = verifier_bytes(u, p, salt);
            let b_pub = le_bytes(server_b_int(v, b), 32);
            let a_pub = le_bytes(client_a_int(7, n_le(), a), 32);
            let x = srp_x(u, p, salt);
            let k_c = client_k(7, n_le(), a_pub, b_pub, x, a);
            let k_s = server_k(a_pub, b_pub, v, b);
            let m1_c = client_m1(7, n_le(), u, salt, a_pub, b_pub, k_c);
            let m1_s = server_m1(u, salt, a_pub, b_pub, k_s);
            &&& k_c == k_s
            &&& m1_c == m1_s
            &&& srp_m2(a_pub, m1_c, k_c) == srp_m2(a_pub, m1_s, k_s)
        })
    {
        lemma_big_n();
        let n = big_n();
        let x = srp_x(u, p, salt);
        lemma_le_val_bounds(srp_x_bytes(u, p, salt));
        lemma_le_val_bounds(a); lemma_le_val_bounds(b);
        let av = le_val(a); let bv = le_val(b);
        // v round-trips through its 32-byte encoding
        let vi = srp_v(7, n, x);
        lemma_modpow_range(7, x, n);
        lemma_le_val_le_bytes(vi, 32);
        let v = verifier_bytes(u, p, salt);
        assert(le_val(v) == vi);
        // B round-trips
        let bi = server_b_int(v, b);
        lemma_modpow_range(7, bv, n);
        vstd::arithmetic::div_mod::lemma_mod_bound(3 * vi + modpow_spec(7, bv, n), n);
        lemma_le_val_le_bytes(bi, 32);
        let b_pub = le_bytes(bi, 32);
        // A round-trips
        let ai = client_a_int(7, n_le(), a);
        lemma_modpow_range(7, av, n);
        lemma_le_val_le_bytes(ai, 32);
        let a_pub = le_bytes(ai, 32);
        let uu = le_val(srp_u_bytes(a_pub, b_pub));
        lemma_le_val_bounds(srp_u_bytes(a_pub, b_pub));
        lemma_srp_agree(7, n, 3, av as nat, bv as nat, x as nat, uu as nat);
        assert(server_s_int(a_pub, b_pub, v, b) == client_s_int(7, n_le(), a_pub, b_pub, x, a));
        axiom_precalculated_xor_hash();
    }

    // ---------------- C02: the proof binds every handshake value --------------------------------
    /// hypothesis used (never assumed globally): SHA-1 does not collide on these two particular messages
    pub open spec fn sha1_injective_on(m1: Seq<u8>, m2: Seq<u8>) -> bool { spec_sha1(m1) == spec_sha1(m2) ==> m1 == m2 }

    pub open spec fn m1_preimage(xh: Seq<u8>, uh: Seq<u8>, salt: Seq<u8>, a_pub: Seq<u8>, b_pub: Seq<u8>, k: Seq<u8>) -> Seq<u8> {
        xh + uh + salt + a_pub + b_pub + k
    }

    /// Any change of salt, A, B or K (fixed-width fields), or of the username hash, changes the M1 preimage; so, unless SHA-1
    /// collides on exactly these two messages, it changes M1 and the server's verdict (into_server's contract is an iff).
    pub proof fn lemma_c02_m1_binds(xh: Seq<u8>, uh1: Seq<u8>, uh2: Seq<u8>, salt1: Seq<u8>, salt2: Seq<u8>, a1: Seq<u8>, a2: Seq<u8>,
                                    b1: Seq<u8>, b2: Seq<u8>, k1: Seq<u8>, k2: Seq<u8>)
        requires
            xh.len() == 20, uh1.len() == 20, uh2.len() == 20, salt1.len() == 32, salt2.len() == 32, a1.len() == 32, a2.len() == 32,
            b1.len() == 32, b2.len() == 32, k1.len() == 40, k2.len() == 40,
            uh1 != uh2 || salt1 != salt2 || a1 != a2 || b1 != b2 || k1 != k2,
            sha1_injective_on(m1_preimage(xh, uh1, salt1, a1, b1, k1), m1_preimage(xh, uh2, salt2, a2, b2, k2)),
        ensures
            spec_sha1(m1_preimage(xh, uh1, salt1, a1, b1, k1)) != spec_sha1(m1_preimage(xh, uh2, salt2, a2, b2, k2)),
    {
        let p1 = m1_preimage(xh, uh1, salt1, a1, b1, k1);
        let p2 = m1_preimage(xh, uh2, salt2, a2, b2, k2);
        if p1 == p2 {
            assert(p1.subrange(20, 40) =~= uh1); assert(p2.subrange(20, 40) =~= uh2);
            assert(p1.subrange(40, 72) =~= salt1); assert(p2.subrange(40, 72) =~= salt2);
            assert(p1.subrange(72, 104) =~= a1); assert(p2.subrange(72, 104) =~= a2);
            assert(p1.subrange(104, 136) =~= b1); assert(p2.subrange(104, 136) =~= b2);
            assert(p1.subrange(136, 176) =~= k1); assert(p2.subrange(136, 176) =~= k2);
        }
    }

    // ---------------- C05: reconnect proofs are single-use -------------------------------------------
    /// A proof computed for server challenge c_old is not the proof for a different challenge c_new (same user, key and
    /// client data), unless SHA-1 collides on exactly these two messages.  With verify_reconnection_attempt's contract
    /// (verdict == equality with the proof for the *current* challenge; challenge redrawn from the RNG on every call,
    /// accepted or not) this gives, by induction over any attempt history: attempt i is accepted iff it is the proof
    /// for the challenge drawn after attempt i-1; a captured pair is refused on every later attempt whose challenge
    /// differs from the captured one.  That two 16-byte RNG draws differ is a property of the RNG, not of this code.
    pub proof fn lemma_c05_stale_proof_rejected(u: Seq<u8>, cd: Seq<u8>, c_old: Seq<u8>, c_new: Seq<u8>, k: Seq<u8>)
        requires
            cd.len() == 16, c_old.len() == 16, c_new.len() == 16, c_old != c_new,
            sha1_injective_on(u + cd + c_old + k, u + cd + c_new + k),
        ensures
            srp_reconnect_proof(u, cd, c_old, k) != srp_reconnect_proof(u, cd, c_new, k),
    {
        let p1 = u + cd + c_old + k; let p2 = u + cd + c_new + k;
        if p1 == p2 {
            let o: int = (u.len() + 16) as int;
            assert(p1.subrange(o, o + 16) =~= c_old);
            assert(p2.subrange(o, o + 16) =~= c_new);
        }
    }

    /// the legitimate client is accepted every time: its proof is, by calculate_reconnect_values' contract, exactly the
    /// value verify_reconnection_attempt compares with, provided it was given the server's current challenge
    pub proof fn lemma_c05_legitimate_client(u: Seq<u8>, cd: Seq<u8>, challenge: Seq<u8>, k: Seq<u8>, proof_sent: Seq<u8>)
        requires proof_sent == srp_reconnect_proof(u, cd, challenge, k)
        ensures (proof_sent == srp_reconnect_proof(u, cd, challenge, k)) == true
    { }
}
