// props: C09 C10 C18
// ---------------------------------------------------------------------------
// Textbook RC4 (C09, C18): key schedule, PRGA with 8-bit counters, keystream, and the
// chunking / involution lemmas.  Written from the algorithm's definition, not from src/rc4.rs.
// ---------------------------------------------------------------------------
pub mod verif_spec_rc4 {
    #[allow(unused_imports)] use vstd::prelude::*;

    pub struct Rc4State { pub s: Seq<u8>, pub i: int, pub j: int }

    pub open spec fn rc4_wf(st: Rc4State) -> bool { st.s.len() == 256 && 0 <= st.i < 256 && 0 <= st.j < 256 }

    pub open spec fn swap_seq(s: Seq<u8>, a: int, b: int) -> Seq<u8> { s.update(a, s[b]).update(b, s[a]) }

    /// one PRGA step: i := i+1, j := j + S[i] (mod 256), swap, output S[S[i] + S[j]]
    pub open spec fn prga_next(st: Rc4State) -> Rc4State {
        let i = (st.i + 1) % 256;
        let j = (st.j + st.s[i] as int) % 256;
        Rc4State { s: swap_seq(st.s, i, j), i: i, j: j }
    }
    pub open spec fn prga_out(st: Rc4State) -> u8 {
        let n = prga_next(st);
        n.s[(n.s[n.i] as int + n.s[n.j] as int) % 256]
    }
    pub open spec fn advance(st: Rc4State, n: nat) -> Rc4State
        decreases n
    { if n == 0 { st } else { prga_next(advance(st, (n - 1) as nat)) } }

    pub open spec fn keystream(st: Rc4State, n: nat) -> Seq<u8>
        decreases n
    { if n == 0 { Seq::<u8>::empty() } else { keystream(st, (n - 1) as nat).push(prga_out(advance(st, (n - 1) as nat))) } }

    pub open spec fn xor_seq(a: Seq<u8>, b: Seq<u8>) -> Seq<u8> { Seq::new(a.len(), |i: int| a[i] ^ b[i]) }

    // ---- key schedule
    pub open spec fn identity_perm() -> Seq<u8> { Seq::new(256, |i: int| i as u8) }
    /// (S, j) after the first `n` iterations of the KSA loop
    pub open spec fn ksa_loop(key: Seq<u8>, n: nat) -> (Seq<u8>, int)
        decreases n
    {
        if n == 0 { (identity_perm(), 0) } else {
            let p = ksa_loop(key, (n - 1) as nat);
            let i = n - 1;
            let j = (p.1 + p.0[i] as int + key[i % (key.len() as int)] as int) % 256;
            (swap_seq(p.0, i, j), j)
        }
    }
    pub open spec fn ksa(key: Seq<u8>) -> Seq<u8> { ksa_loop(key, 256).0 }
    pub open spec fn rc4_init(key: Seq<u8>) -> Rc4State { Rc4State { s: ksa(key), i: 0, j: 0 } }

    // ---- lemmas
    pub proof fn lemma_prga_wf(st: Rc4State)
        requires rc4_wf(st)
        ensures rc4_wf(prga_next(st))
    { }

    pub proof fn lemma_advance_wf(st: Rc4State, n: nat)
        requires rc4_wf(st)
        ensures rc4_wf(advance(st, n))
        decreases n
    { if n > 0 { lemma_advance_wf(st, (n - 1) as nat); lemma_prga_wf(advance(st, (n - 1) as nat)); } }

    pub proof fn lemma_keystream_len(st: Rc4State, n: nat)
        ensures keystream(st, n).len() == n
        decreases n
    { if n > 0 { lemma_keystream_len(st, (n - 1) as nat); } }

    pub proof fn lemma_advance_add(st: Rc4State, a: nat, b: nat)
        ensures advance(st, a + b) == advance(advance(st, a), b)
        decreases b
    { if b > 0 { lemma_advance_add(st, a, (b - 1) as nat); assert((a + b - 1) as nat == a + (b - 1) as nat); } }

    /// chunking (C09): the keystream for a+b bytes is the keystream for a bytes followed by the
    /// keystream for b bytes from the state the first a bytes left behind - for every a, b, so counter
    /// wrap-around at 256 / 65536 bytes is covered.
    pub proof fn lemma_keystream_add(st: Rc4State, a: nat, b: nat)
        ensures keystream(st, a + b) == keystream(st, a) + keystream(advance(st, a), b)
        decreases b
    {
        if b == 0 {
            assert(keystream(st, a) + Seq::<u8>::empty() =~= keystream(st, a));
        } else {
            lemma_keystream_add(st, a, (b - 1) as nat);
            lemma_advance_add(st, a, (b - 1) as nat);
            assert((a + b - 1) as nat == a + (b - 1) as nat);
            assert(keystream(st, a + b) =~= keystream(st, a) + keystream(advance(st, a), b));
        }
    }

    pub proof fn lemma_xor_involution(p: Seq<u8>, k: Seq<u8>)
        requires p.len() == k.len()
        ensures xor_seq(xor_seq(p, k), k) == p
    {
        assert forall|i: int| 0 <= i < p.len() implies xor_seq(xor_seq(p, k), k)[i] == p[i] by {
            let x = p[i]; let y = k[i];
            assert((x ^ y) ^ y == x) by(bit_vector);
        }
        assert(xor_seq(xor_seq(p, k), k) =~= p);
    }

    pub proof fn lemma_xor_concat(a: Seq<u8>, b: Seq<u8>, ka: Seq<u8>, kb: Seq<u8>)
        requires a.len() == ka.len(), b.len() == kb.len()
        ensures xor_seq(a + b, ka + kb) == xor_seq(a, ka) + xor_seq(b, kb)
    {
        assert(xor_seq(a + b, ka + kb) =~= xor_seq(a, ka) + xor_seq(b, kb));
    }

    /// applying the keystream to a ++ b in one call equals two calls (C09 "any chunking")
    pub proof fn lemma_apply_concat(st: Rc4State, a: Seq<u8>, b: Seq<u8>)
        ensures
            xor_seq(a + b, keystream(st, (a + b).len())) == xor_seq(a, keystream(st, a.len())) + xor_seq(b, keystream(advance(st, a.len()), b.len())),
            advance(st, (a + b).len()) == advance(advance(st, a.len()), b.len()),
    {
        lemma_keystream_add(st, a.len(), b.len());
        lemma_advance_add(st, a.len(), b.len());
        lemma_keystream_len(st, a.len());
        lemma_keystream_len(advance(st, a.len()), b.len());
        lemma_xor_concat(a, b, keystream(st, a.len()), keystream(advance(st, a.len()), b.len()));
    }

    /// round trip (C09): two ends holding the same state: decrypt(encrypt(p)) == p and they stay in step
    pub proof fn lemma_rc4_roundtrip(st: Rc4State, p: Seq<u8>)
        ensures xor_seq(xor_seq(p, keystream(st, p.len())), keystream(st, p.len())) == p,
                xor_seq(p, keystream(st, p.len())).len() == p.len(),
    {
        lemma_keystream_len(st, p.len());
        lemma_xor_involution(p, keystream(st, p.len()));
    }
}
