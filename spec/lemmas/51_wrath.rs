// props: C09 C10 C11 C12
// ---------------------------------------------------------------------------
// Wrath header crypto (C09, C10, C11, C12): direction keys, drop-1024, header layouts.
// The two 16-byte direction constants are written out from the protocol (TrinityCore's
// ServerDecryptionKey / ServerEncryptionKey), not read from the code.
// ---------------------------------------------------------------------------
pub mod verif_spec_wrath {
    #[allow(unused_imports)] use vstd::prelude::*;
    use crate::verif_spec::*;
    use crate::verif_spec_rc4::*;
    use crate::hmac::spec_hmac_sha1;
    use crate::rc4::Rc4;
    use crate::wrath_header::ServerHeader;
    use crate::vanilla_header::ClientHeader;

    /// client -> server
    pub open spec fn wrath_c2s_const() -> Seq<u8> {
        seq![0xC2u8, 0xB3, 0x72, 0x3C, 0xC6, 0xAE, 0xD9, 0xB5, 0x34, 0x3C, 0x53, 0xEE, 0x2F, 0x43, 0x67, 0xCE]
    }
    /// server -> client
    pub open spec fn wrath_s2c_const() -> Seq<u8> {
        seq![0xCCu8, 0x98, 0xAE, 0x04, 0xE8, 0x97, 0xEA, 0xCA, 0x12, 0xDD, 0xC0, 0x93, 0x42, 0x91, 0x53, 0x57]
    }
    pub open spec fn rc4_view(r: Rc4) -> Rc4State { Rc4State { s: r.state@, i: r.i as int, j: r.j as int } }

    /// RC4-drop1024 keyed by HMAC-SHA1(direction constant, session key)
    pub open spec fn wrath_stream(constant: Seq<u8>, session_key: Seq<u8>) -> Rc4State {
        advance(rc4_init(spec_hmac_sha1(constant, session_key)), 1024)
    }

    pub proof fn lemma_directions_differ()
        ensures wrath_c2s_const() != wrath_s2c_const()
    { assert(wrath_c2s_const()[0] != wrath_s2c_const()[0]); }

    // ---- header layouts (C10)
    pub open spec fn wrath_large(size: u32) -> bool { size > 0x7FFF }
    pub open spec fn wrath_server_header_plain(size: u32, opcode: u16) -> Seq<u8> {
        if size > 0x7FFF {
            seq![(((size / 0x10000) % 256) as u8) | 0x80u8, ((size / 0x100) % 256) as u8, (size % 256) as u8] + le16(opcode)
        } else {
            be16(size as u16) + le16(opcode)
        }
    }
    pub open spec fn wrath_client_header_plain(size: u16, opcode: u32) -> Seq<u8> { be16(size) + le32(opcode) }

    /// what a 4-byte plaintext decodes to
    pub open spec fn wrath_small_ok(h: ServerHeader, b: Seq<u8>) -> bool {
        h.size <= 0xFFFF && be16(h.size as u16) + le16(h.opcode) == b
    }
    /// what a 5-byte plaintext decodes to
    pub open spec fn wrath_large_ok(h: ServerHeader, b: Seq<u8>) -> bool {
        b.len() == 5 && h.size as int == ((b[0] & 0x7Fu8) as int) * 0x10000 + (b[1] as int) * 0x100 + (b[2] as int)
            && le16(h.opcode) == b.subrange(3, 5)
    }

    /// postcondition of the 4-byte attempt: `plain` = the four bytes XOR the next four keystream bytes;
    /// marker set  -> the plaintext is stashed and one more byte is asked for;
    /// marker clear -> the header is the short layout and the stash is untouched
    pub open spec fn wrath_attempt_post(st: Rc4State, buf: Seq<u8>, header0: Seq<u8>, header1: Seq<u8>, r: crate::wrath_header::WrathServerAttempt) -> bool {
        let plain = xor_seq(buf, keystream(st, 4));
        if plain[0] & 0x80u8 != 0 {
            r is AdditionalByteRequired && header1 == plain
        } else {
            header1 == header0 && (r matches crate::wrath_header::WrathServerAttempt::Header(h) && wrath_small_ok(h, plain))
        }
    }
    /// postcondition of the read-based call on a reader able to deliver `stream` before failing (C10, C11)
    pub open spec fn wrath_read_post(st: Rc4State, stream: Seq<u8>, header0: Seq<u8>, st1: Rc4State, header1: Seq<u8>,
                                     r: Result<ServerHeader, crate::std_io::Error>) -> bool {
        if stream.len() < 4 {
            r.is_err() && st1 == st && header1 == header0
        } else {
            let plain = xor_seq(stream.subrange(0, 4), keystream(st, 4));
            if plain[0] & 0x80u8 == 0 {
                st1 == advance(st, 4) && header1 == header0 && (r matches Ok(h) && wrath_small_ok(h, plain))
            } else if stream.len() < 5 {
                // failure at the fifth byte: exactly the state after the 4-byte attempt
                r.is_err() && st1 == advance(st, 4) && header1 == plain
            } else {
                st1 == advance(st, 5) && header1 == plain
                    && (r matches Ok(h) && wrath_large_ok(h, xor_seq(stream.subrange(0, 5), keystream(st, 5))))
            }
        }
    }

    /// C10: a short header decodes to the size and opcode that were encoded
    pub proof fn lemma_wrath_small_roundtrip(size: u32, opcode: u16, h: ServerHeader)
        requires size <= 0x7FFF, wrath_small_ok(h, wrath_server_header_plain(size, opcode))
        ensures h.size == size, h.opcode == opcode,
                wrath_server_header_plain(size, opcode).len() == 4,
                wrath_server_header_plain(size, opcode)[0] & 0x80u8 == 0,
    {
        let p = wrath_server_header_plain(size, opcode);
        let q = be16(h.size as u16) + le16(h.opcode);
        assert(q.subrange(0, 2) =~= be16(h.size as u16)); assert(p.subrange(0, 2) =~= be16(size as u16));
        assert(q.subrange(2, 4) =~= le16(h.opcode)); assert(p.subrange(2, 4) =~= le16(opcode));
        lemma_be16_inj(h.size as u16, size as u16); lemma_le16_inj(h.opcode, opcode);
        let b0 = p[0];
        assert(b0 == ((size as u16) / 256) as u8);
        assert(b0 < 0x80);
        assert(b0 & 0x80u8 == 0) by(bit_vector) requires b0 < 0x80u8;
    }
    /// C10: a long header carries the 0x80 marker and decodes to the size and opcode that were encoded
    pub proof fn lemma_wrath_large_roundtrip(size: u32, opcode: u16, h: ServerHeader)
        requires 0x7FFF < size <= 0x7FFFFF, wrath_large_ok(h, wrath_server_header_plain(size, opcode))
        ensures h.size == size, h.opcode == opcode,
                wrath_server_header_plain(size, opcode).len() == 5,
                wrath_server_header_plain(size, opcode)[0] & 0x80u8 != 0,
    {
        let p = wrath_server_header_plain(size, opcode);
        let hi = ((size / 0x10000) % 256) as u8;
        assert(hi < 0x80);
        assert((hi | 0x80u8) & 0x80u8 != 0) by(bit_vector);
        assert((hi | 0x80u8) & 0x7Fu8 == hi) by(bit_vector) requires hi < 0x80u8;
        assert(p.subrange(3, 5) =~= le16(opcode));
        lemma_le16_inj(h.opcode, opcode);
        assert(size as int == (hi as int) * 0x10000 + (((size / 0x100) % 256) as int) * 0x100 + ((size % 256) as int));
    }

    // ---------------- C10: end to end, any sequence of headers -------------------------------------

    pub open spec fn wrath_hdr_len(size: u32) -> nat { if size > 0x7FFF { 5 } else { 4 } }

    /// bytes the server puts on the wire for a list of (size, opcode) headers, starting in stream state st
    /// (each element per the contract of encrypt_server_header, state threaded through)
    pub open spec fn wrath_wire(st: Rc4State, hdrs: Seq<(u32, u16)>) -> Seq<u8>
        decreases hdrs.len()
    {
        if hdrs.len() == 0 { Seq::<u8>::empty() } else {
            let n = wrath_hdr_len(hdrs[0].0);
            xor_seq(wrath_server_header_plain(hdrs[0].0, hdrs[0].1), keystream(st, n)) + wrath_wire(advance(st, n), hdrs.drop_first())
        }
    }

    pub proof fn lemma_plain_len(size: u32, opcode: u16)
        ensures wrath_server_header_plain(size, opcode).len() == wrath_hdr_len(size)
    { }

    /// keystream prefix: the first m bytes of an n-byte keystream are the m-byte keystream
    pub proof fn lemma_keystream_prefix(st: Rc4State, m: nat, n: nat)
        requires m <= n
        ensures keystream(st, n).subrange(0, m as int) == keystream(st, m), keystream(st, n).len() == n
    {
        lemma_keystream_add(st, m, (n - m) as nat);
        lemma_keystream_len(st, m); lemma_keystream_len(st, n);
        assert((keystream(st, m) + keystream(advance(st, m), (n - m) as nat)).subrange(0, m as int) =~= keystream(st, m));
    }

    /// Step of the sequence argument, read-based path: whatever the client's read-based call returns on a stream that
    /// starts with the wire image of hdrs (client stream state == server stream state st), it returns exactly the
    /// first header, consumes exactly its bytes and is left in the server's state - so the rest of the stream is
    /// again the wire image of the remaining headers from the common state, and the argument repeats.
    pub proof fn lemma_wrath_read_step(st: Rc4State, hdrs: Seq<(u32, u16)>, rest: Seq<u8>, header0: Seq<u8>,
                                       st1: Rc4State, header1: Seq<u8>, r: Result<ServerHeader, crate::std_io::Error>)
        requires
            hdrs.len() > 0, hdrs[0].0 <= 0x7FFFFF,
            wrath_read_post(st, wrath_wire(st, hdrs) + rest, header0, st1, header1, r),
        ensures
            r matches Ok(h) && h.size == hdrs[0].0 && h.opcode == hdrs[0].1,
            st1 == advance(st, wrath_hdr_len(hdrs[0].0)),
            (wrath_wire(st, hdrs) + rest).subrange(wrath_hdr_len(hdrs[0].0) as int, (wrath_wire(st, hdrs) + rest).len() as int)
                == wrath_wire(st1, hdrs.drop_first()) + rest,
    {
        let size = hdrs[0].0; let opcode = hdrs[0].1;
        let n = wrath_hdr_len(size);
        let plain = wrath_server_header_plain(size, opcode);
        let first = xor_seq(plain, keystream(st, n));
        let tail = wrath_wire(advance(st, n), hdrs.drop_first());
        let stream = wrath_wire(st, hdrs) + rest;
        lemma_keystream_len(st, n);
        lemma_rc4_roundtrip(st, plain);
        assert(stream =~= first + (tail + rest));
        assert(stream.subrange(n as int, stream.len() as int) =~= tail + rest);
        assert(stream.subrange(0, n as int) =~= first);
        lemma_keystream_prefix(st, 4, n);
        // the first four plaintext bytes as the client computes them
        let p4 = xor_seq(stream.subrange(0, 4), keystream(st, 4));
        assert(p4 =~= plain.subrange(0, 4)) by {
            assert forall|i: int| 0 <= i < 4 implies p4[i] == plain[i] by {
                assert(stream[i] == first[i]);
                assert(keystream(st, 4)[i] == keystream(st, n)[i]);
                let x = plain[i]; let k = keystream(st, n)[i];
                assert((x ^ k) ^ k == x) by(bit_vector);
            }
        }
        if size <= 0x7FFF {
            assert(plain.subrange(0, 4) =~= plain);
            assert(be16(size as u16) + le16(opcode) == plain);
            lemma_wrath_small_roundtrip(size, opcode, ServerHeader { size: size, opcode: opcode });
            assert(p4 == plain);
            assert(p4[0] & 0x80u8 == 0);
            match r { Ok(h) => { lemma_wrath_small_roundtrip(size, opcode, h); } Err(_) => { } }
        } else {
            let hi = ((size / 0x10000) % 256) as u8;
            assert((hi | 0x80u8) & 0x80u8 != 0) by(bit_vector);
            assert(p4[0] == plain[0]);
            match r { Ok(h) => {
                assert(xor_seq(stream.subrange(0, 5), keystream(st, 5)) =~= plain);
                lemma_wrath_large_roundtrip(size, opcode, h);
            } Err(_) => { } }
        }
    }

    /// Same step for the two-call path: attempt on the first four bytes, then (long header) one more byte.
    pub proof fn lemma_wrath_attempt_step(st: Rc4State, size: u32, opcode: u16, header0: Seq<u8>, header1: Seq<u8>,
                                          ra: crate::wrath_header::WrathServerAttempt, h2: ServerHeader)
        requires
            size <= 0x7FFFFF,
            wrath_attempt_post(st, xor_seq(wrath_server_header_plain(size, opcode), keystream(st, wrath_hdr_len(size))).subrange(0, 4), header0, header1, ra),
            size > 0x7FFF ==> wrath_large_ok(h2, header1 + xor_seq(
                seq![xor_seq(wrath_server_header_plain(size, opcode), keystream(st, 5))[4]], keystream(advance(st, 4), 1))),
        ensures
            size <= 0x7FFF ==> (ra matches crate::wrath_header::WrathServerAttempt::Header(h) && h.size == size && h.opcode == opcode),
            size > 0x7FFF ==> ra is AdditionalByteRequired && h2.size == size && h2.opcode == opcode,
    {
        let n = wrath_hdr_len(size);
        let plain = wrath_server_header_plain(size, opcode);
        let wire = xor_seq(plain, keystream(st, n));
        lemma_keystream_len(st, n);
        lemma_keystream_prefix(st, 4, n);
        let p4 = xor_seq(wire.subrange(0, 4), keystream(st, 4));
        assert(p4 =~= plain.subrange(0, 4)) by {
            assert forall|i: int| 0 <= i < 4 implies p4[i] == plain[i] by {
                assert(keystream(st, 4)[i] == keystream(st, n)[i]);
                let x = plain[i]; let k = keystream(st, n)[i];
                assert((x ^ k) ^ k == x) by(bit_vector);
            }
        }
        if size <= 0x7FFF {
            assert(plain.subrange(0, 4) =~= plain);
            assert(be16(size as u16) + le16(opcode) == plain);
            lemma_wrath_small_roundtrip(size, opcode, ServerHeader { size: size, opcode: opcode });
            assert(p4 == plain);
            assert(p4[0] & 0x80u8 == 0);
            match ra {
                crate::wrath_header::WrathServerAttempt::Header(h) => { lemma_wrath_small_roundtrip(size, opcode, h); }
                _ => { }
            }
        } else {
            let hi = ((size / 0x10000) % 256) as u8;
            assert((hi | 0x80u8) & 0x80u8 != 0) by(bit_vector);
            assert(p4[0] == plain[0]);
            lemma_keystream_add(st, 4, 1);
            lemma_keystream_len(st, 4); lemma_keystream_len(advance(st, 4), 1);
            let k5 = keystream(st, 5);
            let last = xor_seq(seq![wire[4]], keystream(advance(st, 4), 1));
            assert(last =~= seq![plain[4]]) by {
                assert(k5[4] == keystream(advance(st, 4), 1)[0]);
                let x = plain[4]; let k = k5[4];
                assert((x ^ k) ^ k == x) by(bit_vector);
            }
            assert(header1 + last =~= plain);
            lemma_wrath_large_roundtrip(size, opcode, h2);
        }
    }
}
