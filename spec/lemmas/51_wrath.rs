// props: C09 C10 C11 C12
// ---------------------------------------------------------------------------
// Wrath header crypto (C09, C10, C11, C12): direction keys, drop-1024, header layouts.
// The two 16-byte direction constants are written out from the protocol (TrinityCore's
// ServerDecryptionKey / ServerEncryptionKey), not read from the code.
// ---------------------------------------------------------------------------
pub mod verif_spec_wrath {
    #[allow(unused_imports)] use vstd::prelude::*;
    use crate::verif_spec::*;
    use crate::verif_spec_rc4::*;
    use crate::hmac::spec_hmac_sha1;
    use crate::rc4::Rc4;
    use crate::wrath_header::ServerHeader;
    use crate::vanilla_header::ClientHeader;

    /// client -> server
    pub open spec fn wrath_c2s_const() -> Seq<u8> {
        seq![0xC2u8, 0xB3, 0x72, 0x3C, 0xC6, 0xAE, 0xD9, 0xB5, 0x34, 0x3C, 0x53, 0xEE, 0x2F, 0x43, 0x67, 0xCE]
    }
    /// server -> client
    pub open spec fn wrath_s2c_const() -> Seq<u8> {
        seq![0xCCu8, 0x98, 0xAE, 0x04, 0xE8, 0x97, 0xEA, 0xCA, 0x12, 0xDD, 0xC0, 0x93, 0x42, 0x91, 0x53, 0x57]
    }
    pub open spec fn rc4_view(r: Rc4) -> Rc4State { Rc4State { s: r.state@, i: r.i as int, j: r.j as int } }

    /// RC4-drop1024 keyed by HMAC-SHA1(direction constant, session key)
    pub open spec fn wrath_stream(constant: Seq<u8>, session_key: Seq<u8>) -> Rc4State {
        advance(rc4_init(spec_hmac_sha1(constant, session_key)), 1024)
    }

    pub proof fn lemma_directions_differ()
        ensures wrath_c2s_const() != wrath_s2c_const()
    { assert(wrath_c2s_const()[0] != wrath_s2c_const()[0]); }

    // ---- header layouts (C10)
    pub open spec fn wrath_large(size: u32) -> bool { size > 0x7FFF }
    pub open spec fn wrath_server_header_plain(size: u32, opcode: u16) -> Seq<u8> {
        if size > 0x7FFF {
            seq![(((size / 0x10000) % 256) as u8) | 0x80u8, ((size / 0x100) % 256) as u8, (size % 256) as u8] + le16(opcode)
        } else {
            be16(size as u16) + le16(opcode)
        }
    }
    pub open spec fn wrath_client_header_plain(size: u16, opcode: u32) -> Seq<u8> { be16(size) + le32(opcode) }

    /// what a 4-byte plaintext decodes to
    pub open spec fn wrath_small_ok(h: ServerHeader, b: Seq<u8>) -> bool {
        h.size <= 0xFFFF && be16(h.size as u16) + le16(h.opcode) == b
    }
    /// what a 5-byte plaintext decodes to
    pub open spec fn wrath_large_ok(h: ServerHeader, b: Seq<u8>) -> bool {
        b.len() == 5 && h.size as int == ((b[0] & 0x7Fu8) as int) * 0x10000 + (b[1] as int) * 0x100 + (b[2] as int)
            && le16(h.opcode) == b.subrange(3, 5)
    }

    /// postcondition of the 4-byte attempt: `plain` = the four bytes XOR the next four keystream bytes;
    /// marker set  -> the plaintext is stashed and one more byte is asked for;
    /// marker clear -> the header is the short layout and the stash is untouched
    pub open spec fn wrath_attempt_post(st: Rc4State, buf: Seq<u8>, header0: Seq<u8>, header1: Seq<u8>, r: crate::wrath_header::WrathServerAttempt) -> bool {
        let plain = xor_seq(buf, keystream(st, 4));
        if plain[0] & 0x80u8 != 0 {
            r is AdditionalByteRequired && header1 == plain
        } else {
            header1 == header0 && (r matches crate::wrath_header::WrathServerAttempt::Header(h) && wrath_small_ok(h, plain))
        }
    }
    /// postcondition of the read-based call on a reader able to deliver `stream` before failing (C10, C11)
    pub open spec fn wrath_read_post(st: Rc4State, stream: Seq<u8>, header0: Seq<u8>, st1: Rc4State, header1: Seq<u8>,
                                     r: Result<ServerHeader, crate::std_io::Error>) -> bool {
        if stream.len() < 4 {
            r.is_err() && st1 == st && header1 == header0
        } else {
            let plain = xor_seq(stream.subrange(0, 4), keystream(st, 4));
            if plain[0] & 0x80u8 == 0 {
                st1 == advance(st, 4) && header1 == header0 && (r matches Ok(h) && wrath_small_ok(h, plain))
            } else if stream.len() < 5 {
                // failure at the fifth byte: exactly the state after the 4-byte attempt
                r.is_err() && st1 == advance(st, 4) && header1 == plain
            } else {
                st1 == advance(st, 5) && header1 == plain
                    && (r matches Ok(h) && wrath_large_ok(h, xor_seq(stream.subrange(0, 5), keystream(st, 5))))
            }
        }
    }

    /// C10: a short header decodes to the size and opcode that were encoded
    pub proof fn lemma_wrath_small_roundtrip(size: u32, opcode: u16, h: ServerHeader)
        requires size <= 0x7FFF, wrath_small_ok(h, wrath_server_header_plain(size, opcode))
        ensures h.size == size, h.opcode == opcode,
                wrath_server_header_plain(size, opcode).len() == 4,
                wrath_server_header_plain(size, opcode)[0] & 0x80u8 == 0,
    {
        let p = wrath_server_header_plain(size, opcode);
        let q = be16(h.size as u16) + le16(h.opcode);
        assert(q.subrange(0, 2) =~= be16(h.size as u16)); assert(p.subrange(0, 2) =~= be16(size as u16));
        assert(q.subrange(2, 4) =~= le16(h.opcode)); assert(p.subrange(2, 4) =~= le16(opcode));
        lemma_be16_inj(h.size as u16, size as u16); lemma_le16_inj(h.opcode, opcode);
        let b0 = p[0];
        assert(b0 == ((size as u16) / 256) as u8);
        assert(b0 < 0x80);
        assert(b0 & 0x80u8 == 0) by(bit_vector) requires b0 < 0x80u8;
    }
    /// C10: a long header carries the 0x80 marker and decodes to the size and opcode that were encoded
    pub proof fn lemma_wrath_large_roundtrip(size: u32, opcode: u16, h: ServerHeader)
        requires 0x7FFF < size <= 0x7FFFFF, wrath_large_ok(h, wrath_server_header_plain(size, opcode))
        ensures h.size == size, h.opcode == opcode,
                wrath_server_header_plain(size, opcode).len() == 5,
                wrath_server_header_plain(size, opcode)[0] & 0x80u8 != 0,
    {
        let p = wrath_server_header_plain(size, opcode);
        let hi = ((size / 0x10000) % 256) as u8;
        assert(hi < 0x80);
        assert((hi | 0x80u8) & 0x80u8 != 0) by(bit_vector);
        assert((hi | 0x80u8) & 0x7Fu8 == hi) by(bit_vector) requires hi < 0x80u8;
        assert(p.subrange(3, 5) =~= le16(opcode));
        lemma_le16_inj(h.opcode, opcode);
        assert(size as int == (hi as int) * 0x10000 + (((size / 0x100) % 256) as int) * 0x100 + ((size % 256) as int));
    }
}
