// ---------------------------------------------------------------------------
// Integer vocabulary for the SRP algebra: little-endian values, fixed-width encodings,
// truncated remainder, modular exponentiation.  Written from the property statements / RFC 2945.
// ---------------------------------------------------------------------------
pub mod verif_spec_int {
    #[allow(unused_imports)] use vstd::prelude::*;
    use vstd::arithmetic::power::*;
    use vstd::arithmetic::div_mod::*;
    use vstd::arithmetic::mul::*;

    pub open spec fn abs(x: int) -> int { if x < 0 { -x } else { x } }
    pub open spec fn trunc_rem(a: int, b: int) -> int { if a >= 0 { a % abs(b) } else { -((-a) % abs(b)) } }
    /// b^e mod m, Euclidean (result in [0, m) for m > 0, also for negative b)
    pub open spec fn modpow_spec(b: int, e: int, m: int) -> int { pow(b, e as nat) % m }

    /// value of a little-endian byte string
    pub open spec fn le_val(s: Seq<u8>) -> int
        decreases s.len()
    {
        if s.len() == 0 { 0 } else { s[0] as int + 256 * le_val(s.subrange(1, s.len() as int)) }
    }
    /// the n-byte little-endian encoding of v (v taken modulo 256^n)
    pub open spec fn le_bytes(v: int, n: nat) -> Seq<u8>
        decreases n
    {
        if n == 0 { Seq::<u8>::empty() } else { seq![(v % 256) as u8] + le_bytes(v / 256, (n - 1) as nat) }
    }
    /// minimal magnitude: no high-order zero byte (the single byte [0] is allowed for zero by num-bigint, [] by rug)
    pub open spec fn minimal_le(s: Seq<u8>) -> bool { s.len() == 0 || s.last() != 0 || s == seq![0u8] }
    pub open spec fn zeros(n: nat) -> Seq<u8> { Seq::new(n, |i: int| 0u8) }
    pub open spec fn pow256(n: nat) -> int { pow(256, n) }

    pub proof fn lemma_pow256_pos(n: nat)
        ensures pow256(n) > 0
    { lemma_pow_positive(256, n); }

    pub proof fn lemma_pow256_step(n: nat)
        ensures pow256(n + 1) == 256 * pow256(n)
    { reveal(pow); }

    pub proof fn lemma_le_val_bounds(s: Seq<u8>)
        ensures 0 <= le_val(s) < pow256(s.len())
        decreases s.len()
    {
        if s.len() == 0 { reveal(pow); } else {
            let t = s.subrange(1, s.len() as int);
            lemma_le_val_bounds(t);
            lemma_pow256_step(t.len());
            assert(le_val(s) < 256 * pow256(t.len())) by(nonlinear_arith)
                requires le_val(s) == s[0] as int + 256 * le_val(t), 0 <= s[0] as int <= 255, 0 <= le_val(t) < pow256(t.len());
            assert(le_val(s) >= 0) by(nonlinear_arith)
                requires le_val(s) == s[0] as int + 256 * le_val(t), 0 <= s[0] as int, 0 <= le_val(t);
        }
    }

    pub proof fn lemma_le_bytes_len(v: int, n: nat)
        ensures le_bytes(v, n).len() == n
        decreases n
    { if n > 0 { lemma_le_bytes_len(v / 256, (n - 1) as nat); } }

    /// encoding then decoding gives the value modulo 256^n
    pub proof fn lemma_le_val_le_bytes(v: int, n: nat)
        requires 0 <= v < pow256(n)
        ensures le_val(le_bytes(v, n)) == v
        decreases n
    {
        if n == 0 { reveal(pow); } else {
            let m = (n - 1) as nat;
            lemma_pow256_step(m);
            lemma_le_bytes_len(v / 256, m);
            let s = le_bytes(v, n);
            assert(s.subrange(1, s.len() as int) =~= le_bytes(v / 256, m));
            assert(0 <= v / 256 < pow256(m)) by(nonlinear_arith) requires 0 <= v < 256 * pow256(m);
            lemma_le_val_le_bytes(v / 256, m);
            assert(s[0] as int == v % 256);
            lemma_fundamental_div_mod(v, 256);
        }
    }

    /// decoding then encoding at the same width gives the bytes back
    pub proof fn lemma_le_bytes_le_val(s: Seq<u8>)
        ensures le_bytes(le_val(s), s.len()) == s
        decreases s.len()
    {
        if s.len() == 0 { } else {
            let t = s.subrange(1, s.len() as int);
            lemma_le_bytes_le_val(t);
            lemma_le_val_bounds(t);
            let v = le_val(s);
            assert(v % 256 == s[0] as int && v / 256 == le_val(t)) by {
                lemma_fundamental_div_mod_converse(v, 256, le_val(t), s[0] as int);
            }
            assert(le_bytes(v, s.len()) =~= s);
        }
    }

    /// two byte strings of the same length with the same value are equal
    pub proof fn lemma_le_val_inj(a: Seq<u8>, b: Seq<u8>)
        requires a.len() == b.len(), le_val(a) == le_val(b)
        ensures a == b
    {
        lemma_le_bytes_le_val(a); lemma_le_bytes_le_val(b);
    }

    /// appending high-order zero bytes does not change the value
    pub proof fn lemma_le_val_pad(s: Seq<u8>, k: nat)
        ensures le_val(s + zeros(k)) == le_val(s)
        decreases s.len(), k
    {
        let p = s + zeros(k);
        if s.len() == 0 {
            if k == 0 { assert(p =~= s); } else {
                assert(p.subrange(1, p.len() as int) =~= Seq::<u8>::empty() + zeros((k - 1) as nat));
                lemma_le_val_pad(Seq::<u8>::empty(), (k - 1) as nat);
                assert(p[0] == 0);
            }
        } else {
            let t = s.subrange(1, s.len() as int);
            assert(p.subrange(1, p.len() as int) =~= t + zeros(k));
            lemma_le_val_pad(t, k);
            assert(p[0] == s[0]);
        }
    }

    /// a minimal magnitude below 256^k has at most k bytes (k >= 1)
    pub proof fn lemma_minimal_len(s: Seq<u8>, k: nat)
        requires minimal_le(s), le_val(s) < pow256(k), k >= 1
        ensures s.len() <= k
        decreases s.len()
    {
        if s.len() > k {
            // the last byte is non-zero, so le_val(s) >= 256^(len-1) >= 256^k
            lemma_le_val_ge_top(s);
            lemma_pow_increases(256, k, (s.len() - 1) as nat);
            let top = pow256((s.len() - 1) as nat);
            lemma_pow256_pos((s.len() - 1) as nat);
            assert(s != seq![0u8]);
            assert((s.last() as int) * top >= top) by(nonlinear_arith) requires s.last() as int >= 1, top > 0;
        }
    }

    pub proof fn lemma_le_val_ge_top(s: Seq<u8>)
        requires s.len() > 0
        ensures le_val(s) >= (s.last() as int) * pow256((s.len() - 1) as nat)
        decreases s.len()
    {
        if s.len() == 1 {
            reveal(pow);
            assert(s.subrange(1, 1) =~= Seq::<u8>::empty());
            assert(pow256(0) == 1);
        } else {
            let t = s.subrange(1, s.len() as int);
            lemma_le_val_ge_top(t);
            assert(t.last() == s.last());
            lemma_pow256_step((t.len() - 1) as nat);
            assert(le_val(s) >= (s.last() as int) * pow256((s.len() - 1) as nat)) by(nonlinear_arith)
                requires le_val(s) == s[0] as int + 256 * le_val(t), s[0] as int >= 0,
                         le_val(t) >= (s.last() as int) * pow256((t.len() - 1) as nat),
                         pow256((s.len() - 1) as nat) == 256 * pow256((t.len() - 1) as nat), s.len() - 1 == t.len();
        }
    }

    /// zero-padding a minimal magnitude to n bytes is the n-byte encoding of the value (the padding clause of C01/C03)
    pub proof fn lemma_pad_is_le_bytes(s: Seq<u8>, n: nat)
        requires s.len() <= n
        ensures s + zeros((n - s.len()) as nat) == le_bytes(le_val(s), n)
    {
        let p = s + zeros((n - s.len()) as nat);
        lemma_le_val_pad(s, (n - s.len()) as nat);
        lemma_le_bytes_le_val(p);
    }

    pub proof fn lemma_le_val_zeros(n: nat)
        ensures le_val(zeros(n)) == 0
    {
        lemma_le_val_pad(Seq::<u8>::empty(), n);
        assert(Seq::<u8>::empty() + zeros(n) =~= zeros(n));
    }

    pub proof fn lemma_le_bytes_zero_iff(v: int, n: nat)
        requires 0 <= v < pow256(n)
        ensures (le_bytes(v, n) == zeros(n)) == (v == 0)
    {
        lemma_le_bytes_len(v, n);
        lemma_le_val_le_bytes(v, n);
        lemma_le_val_zeros(n);
        if v == 0 {
            lemma_le_val_inj(le_bytes(v, n), zeros(n));
        }
    }

    pub proof fn lemma_pow256_32()
        ensures pow256(32) == 0x10000000000000000000000000000000000000000000000000000000000000000int,
                pow256(20) == 0x10000000000000000000000000000000000000000int,
    {
        reveal(pow);
        assert(pow256(1) == 256) by { lemma_pow1(256); }
        lemma_pow_adds(256, 1, 1); assert(pow256(2) == 0x10000);
        lemma_pow_adds(256, 2, 2); assert(pow256(4) == 0x100000000);
        lemma_pow_adds(256, 4, 4); assert(pow256(8) == 0x10000000000000000);
        lemma_pow_adds(256, 8, 8); assert(pow256(16) == 0x100000000000000000000000000000000);
        lemma_pow_adds(256, 16, 16);
        lemma_pow_adds(256, 16, 4);
    }
}
