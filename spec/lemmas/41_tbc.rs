// props: C08 C11 C12
// ---------------------------------------------------------------------------
// TBC header halves as abstract state machines (C08, C11, C12).  Wire layouts are the
// statement's: server header = big-endian u16 size ++ little-endian u16 opcode,
// client header = big-endian u16 size ++ little-endian u32 opcode.
// ---------------------------------------------------------------------------
pub mod verif_spec_tbc {
    #[allow(unused_imports)] use vstd::prelude::*;
    use crate::verif_spec::*;
    use crate::tbc_header::encrypt::EncrypterHalf;
    use crate::tbc_header::decrypt::DecrypterHalf;
    use crate::tbc_header::{ServerHeader, ClientHeader, HeaderCrypto};
    use crate::verif_spec_vanilla::{server_header_bytes, client_header_bytes};
    use crate::hmac::spec_hmac_sha1;


    pub open spec fn tenc_wf(e: EncrypterHalf) -> bool { e.index < 20 }
    pub open spec fn tdec_wf(d: DecrypterHalf) -> bool { d.index < 20 }
    pub open spec fn tenc_out(e: EncrypterHalf, p: Seq<u8>) -> Seq<u8> {
        stream_enc(e.key@, e.index as int, e.previous_value, p)
    }
    pub open spec fn tenc_next(e: EncrypterHalf, p: Seq<u8>) -> EncrypterHalf {
        EncrypterHalf { key: e.key, index: ((e.index as int + p.len()) % 20) as u8,
                        previous_value: last_or(e.previous_value, tenc_out(e, p)) }
    }
    pub open spec fn tdec_out(d: DecrypterHalf, c: Seq<u8>) -> Seq<u8> {
        stream_dec(d.key@, d.index as int, d.previous_value, c)
    }
    pub open spec fn tdec_next(d: DecrypterHalf, c: Seq<u8>) -> DecrypterHalf {
        DecrypterHalf { key: d.key, index: ((d.index as int + c.len()) % 20) as u8,
                        previous_value: last_or(d.previous_value, c) }
    }
    /// the fixed 16-byte TBC seed, written out from the protocol (not read from the code)
    pub open spec fn tbc_seed() -> Seq<u8> {
        seq![0x38u8, 0xA7, 0x83, 0x15, 0xF8, 0x92, 0x25, 0x30, 0x71, 0x98, 0x67, 0xB1, 0x8C, 0x04, 0xE2, 0xAA]
    }
    pub open spec fn tbc_key(session_key: Seq<u8>) -> Seq<u8> { spec_hmac_sha1(tbc_seed(), session_key) }

    /// in-step: a sender half and the peer's receiver half that agree on (key, position, previous byte)
    pub open spec fn t_in_step(e: EncrypterHalf, d: DecrypterHalf) -> bool {
        e.key@ == d.key@ && e.index == d.index && e.previous_value == d.previous_value && e.index < 20
    }

    /// C08: what one side encrypts the other side decrypts, and they stay in step - for one call of any length.
    /// Together with verif_spec_stream::lemma_any_chunking_roundtrip this extends to any partition on either side.
    pub proof fn lemma_tbc_roundtrip(e: EncrypterHalf, d: DecrypterHalf, p: Seq<u8>)
        requires t_in_step(e, d)
        ensures
            tdec_out(d, tenc_out(e, p)) == p,
            t_in_step(tenc_next(e, p), tdec_next(d, tenc_out(e, p))),
    {
        lemma_stream_inverse(e.key@, e.index as int, e.previous_value, p);
        lemma_stream_enc_len(e.key@, e.index as int, e.previous_value, p);
    }

    /// C08/C11: a server header survives encrypt_server_header -> decrypt_server_header
    pub proof fn lemma_tbc_server_header_roundtrip(e: EncrypterHalf, d: DecrypterHalf, size: u16, opcode: u16, h: ServerHeader)
        requires t_in_step(e, d), server_header_bytes(h) == tdec_out(d, tenc_out(e, be16(size) + le16(opcode)))
        ensures h.size == size, h.opcode == opcode
    {
        let p = be16(size) + le16(opcode);
        lemma_tbc_roundtrip(e, d, p);
        let q = server_header_bytes(h);
        assert(q.subrange(0, 2) =~= be16(h.size)); assert(p.subrange(0, 2) =~= be16(size));
        assert(q.subrange(2, 4) =~= le16(h.opcode)); assert(p.subrange(2, 4) =~= le16(opcode));
        lemma_be16_inj(h.size, size); lemma_le16_inj(h.opcode, opcode);
    }
    pub proof fn lemma_tbc_client_header_roundtrip(e: EncrypterHalf, d: DecrypterHalf, size: u16, opcode: u32, h: ClientHeader)
        requires t_in_step(e, d), client_header_bytes(h) == tdec_out(d, tenc_out(e, be16(size) + le32(opcode)))
        ensures h.size == size, h.opcode == opcode
    {
        let p = be16(size) + le32(opcode);
        lemma_tbc_roundtrip(e, d, p);
        let q = client_header_bytes(h);
        assert(q.subrange(0, 2) =~= be16(h.size)); assert(p.subrange(0, 2) =~= be16(size));
        assert(q.subrange(2, 6) =~= le32(h.opcode)); assert(p.subrange(2, 6) =~= le32(opcode));
        lemma_be16_inj(h.size, size); lemma_le32_inj(h.opcode, opcode);
    }
    /// zero-length calls change nothing (C08)
    pub proof fn lemma_tbc_empty_call(e: EncrypterHalf, d: DecrypterHalf)
        requires tenc_wf(e), tdec_wf(d)
        ensures tenc_next(e, Seq::<u8>::empty()) == e, tdec_next(d, Seq::<u8>::empty()) == d,
                tenc_out(e, Seq::<u8>::empty()) == Seq::<u8>::empty(), tdec_out(d, Seq::<u8>::empty()) =~= Seq::<u8>::empty(),
    {
    }
}
