// props: C01 C02 C03 C04 C05 C06
// ---------------------------------------------------------------------------
// Views of the crate's wrapper types used in contracts.
// ---------------------------------------------------------------------------
pub mod verif_spec_key {
    #[allow(unused_imports)] use vstd::prelude::*;
    use vstd::std_specs::cmp::PartialEqSpecImpl;
    use crate::verif_spec::*;
    use crate::key::*;
    use crate::bigint::Integer;
    use crate::normalized_string::NormalizedString;

    pub open spec fn int_v(i: Integer) -> int { i.value.v() }

    // `==` on the wrappers is whole-array equality (C02: "whole-array equality on the proof wrapper").
    // The real (derive-expanded) `eq` bodies are verified against these.
    impl PartialEqSpecImpl for Proof { open spec fn obeys_eq_spec() -> bool { true } open spec fn eq_spec(&self, o: &Proof) -> bool { self.key@ =~= o.key@ } }
    impl PartialEqSpecImpl for Salt { open spec fn obeys_eq_spec() -> bool { true } open spec fn eq_spec(&self, o: &Salt) -> bool { self.key@ =~= o.key@ } }
    impl PartialEqSpecImpl for PrivateKey { open spec fn obeys_eq_spec() -> bool { true } open spec fn eq_spec(&self, o: &PrivateKey) -> bool { self.key@ =~= o.key@ } }
    impl PartialEqSpecImpl for PublicKey { open spec fn obeys_eq_spec() -> bool { true } open spec fn eq_spec(&self, o: &PublicKey) -> bool { self.key@ =~= o.key@ } }
    impl PartialEqSpecImpl for Sha1Hash { open spec fn obeys_eq_spec() -> bool { true } open spec fn eq_spec(&self, o: &Sha1Hash) -> bool { self.key@ =~= o.key@ } }
    impl PartialEqSpecImpl for Verifier { open spec fn obeys_eq_spec() -> bool { true } open spec fn eq_spec(&self, o: &Verifier) -> bool { self.key@ =~= o.key@ } }
    impl PartialEqSpecImpl for SKey { open spec fn obeys_eq_spec() -> bool { true } open spec fn eq_spec(&self, o: &SKey) -> bool { self.key@ =~= o.key@ } }
    impl PartialEqSpecImpl for ReconnectData { open spec fn obeys_eq_spec() -> bool { true } open spec fn eq_spec(&self, o: &ReconnectData) -> bool { self.key@ =~= o.key@ } }
    impl PartialEqSpecImpl for SessionKey { open spec fn obeys_eq_spec() -> bool { true } open spec fn eq_spec(&self, o: &SessionKey) -> bool { self.key@ =~= o.key@ } }

    impl PartialEqSpecImpl for NormalizedString { open spec fn obeys_eq_spec() -> bool { true } open spec fn eq_spec(&self, o: &NormalizedString) -> bool { self.s@ =~= o.s@ && self.length == o.length } }

    // ---- NormalizedString: representation invariant (established by the only constructor, proved by Kani c13_*)
    pub open spec fn ns_wf(n: NormalizedString) -> bool {
        1 <= n.length <= 16
        && (forall|i: int| 0 <= i < n.length ==> 0x20 <= #[trigger] n.s@[i] <= 0x7E && !(0x61 <= n.s@[i] <= 0x7A))
        && (forall|i: int| n.length <= i < 16 ==> #[trigger] n.s@[i] == 0)
    }
    /// N, little endian, written out from the protocol (C03)
    pub open spec fn n_le() -> Seq<u8> {
        seq![0xb7u8, 0x9b, 0x3e, 0x2a, 0x87, 0x82, 0x3c, 0xab, 0x8f, 0x5e, 0xbf, 0xbf, 0x8e, 0xb1, 0x01, 0x08,
             0x53, 0x50, 0x06, 0x29, 0x8b, 0x5b, 0xad, 0xbd, 0x5b, 0x53, 0xe1, 0x89, 0x5e, 0x64, 0x4b, 0x89]
    }
    /// N as an integer
    pub open spec fn big_n() -> int { le_val(n_le()) }
    /// Facts about N used throughout: 0 < N < 2^256 and 2 N >= 2^256 (C04: "2N does not fit in 32 bytes")
    pub proof fn lemma_big_n()
        ensures 0 < big_n() < pow256(32), 2 * big_n() >= pow256(32), n_le().len() == 32,
                big_n() == 0x894B645E89E1535BBDAD5B8B290650530801B18EBFBF5E8FAB3C82872A3E9BB7int,
    {
        lemma_le_val_bounds(n_le());
        assert(big_n() == 0x894B645E89E1535BBDAD5B8B290650530801B18EBFBF5E8FAB3C82872A3E9BB7int) by(compute);
        lemma_pow256_32();
    }
    /// a value in [0, N) is an acceptable public key iff it is not zero
    pub proof fn lemma_pk_valid_below_n(v: int)
        requires 0 <= v < big_n()
        ensures pk_valid(le_bytes(v, 32)) == (v != 0)
    {
        lemma_big_n();
        lemma_le_bytes_zero_iff(v, 32);
        lemma_le_val_le_bytes(v, 32);
        if le_bytes(v, 32) == n_le() { assert(le_val(le_bytes(v, 32)) == big_n()); }
    }
    /// C04: a 32-byte public key is acceptable iff it is neither zero nor N itself
    pub open spec fn pk_valid(key: Seq<u8>) -> bool { key != zeros(32) && key != n_le() }
    /// the normalised text as bytes
    pub open spec fn ns_text(n: NormalizedString) -> Seq<u8> { n.s@.subrange(0, n.length as int) }
}
// ---- operator / conversion meaning for crate types (the real impl bodies are verified against the `ensures` in bigint.vspec)
pub mod verif_spec_ops {
    #[allow(unused_imports)] use vstd::prelude::*;
    use vstd::std_specs::ops::*;
    use vstd::std_specs::convert::FromSpecImpl;
    use crate::bigint::Integer;
    use crate::key::*;
    use crate::verif_spec_key::int_v;
    impl MulSpecImpl<Integer> for Integer {
        open spec fn obeys_mul_spec() -> bool { false }
        open spec fn mul_req(self, rhs: Integer) -> bool { true }
        open spec fn mul_spec(self, rhs: Integer) -> Integer { arbitrary() }
    }
    impl AddSpecImpl<Integer> for Integer {
        open spec fn obeys_add_spec() -> bool { false }
        open spec fn add_req(self, rhs: Integer) -> bool { true }
        open spec fn add_spec(self, rhs: Integer) -> Integer { arbitrary() }
    }
    impl SubSpecImpl<Integer> for Integer {
        open spec fn obeys_sub_spec() -> bool { false }
        open spec fn sub_req(self, rhs: Integer) -> bool { true }
        open spec fn sub_spec(self, rhs: Integer) -> Integer { arbitrary() }
    }
    impl RemSpecImpl<Integer> for Integer {
        open spec fn obeys_rem_spec() -> bool { false }
        /// precondition of `%` on Integer: the divisor is not zero (BigInt `%` panics on zero)
        open spec fn rem_req(self, rhs: Integer) -> bool { int_v(rhs) != 0 }
        open spec fn rem_spec(self, rhs: Integer) -> Integer { arbitrary() }
    }
    impl FromSpecImpl<u8> for Integer {
        open spec fn obeys_from_spec() -> bool { false }
        open spec fn from_spec(v: u8) -> Integer { arbitrary() }
    }
    impl FromSpecImpl<Integer> for SKey { open spec fn obeys_from_spec() -> bool { false } open spec fn from_spec(v: Integer) -> SKey { arbitrary() } }
    impl FromSpecImpl<Integer> for Salt { open spec fn obeys_from_spec() -> bool { false } open spec fn from_spec(v: Integer) -> Salt { arbitrary() } }
    impl FromSpecImpl<Integer> for PrivateKey { open spec fn obeys_from_spec() -> bool { false } open spec fn from_spec(v: Integer) -> PrivateKey { arbitrary() } }
    impl FromSpecImpl<Integer> for Sha1Hash { open spec fn obeys_from_spec() -> bool { false } open spec fn from_spec(v: Integer) -> Sha1Hash { arbitrary() } }
    impl FromSpecImpl<Integer> for Verifier { open spec fn obeys_from_spec() -> bool { false } open spec fn from_spec(v: Integer) -> Verifier { arbitrary() } }
    impl FromSpecImpl<Integer> for Proof { open spec fn obeys_from_spec() -> bool { false } open spec fn from_spec(v: Integer) -> Proof { arbitrary() } }
    impl FromSpecImpl<Integer> for ReconnectData { open spec fn obeys_from_spec() -> bool { false } open spec fn from_spec(v: Integer) -> ReconnectData { arbitrary() } }
    impl FromSpecImpl<Integer> for SessionKey { open spec fn obeys_from_spec() -> bool { false } open spec fn from_spec(v: Integer) -> SessionKey { arbitrary() } }
    impl FromSpecImpl<u8> for crate::primes::Generator { open spec fn obeys_from_spec() -> bool { false } open spec fn from_spec(v: u8) -> crate::primes::Generator { arbitrary() } }
}
