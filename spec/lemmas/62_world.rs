// props: C06
// ---------------------------------------------------------------------------
// C06: world-login proof = SHA-1(username | four zero bytes | client seed LE | server seed LE | session key)
// ---------------------------------------------------------------------------
pub mod verif_spec_world {
    #[allow(unused_imports)] use vstd::prelude::*;
    use crate::verif_spec::*;
    use crate::sha1::spec_sha1;

    pub open spec fn world_proof(username: Seq<u8>, session_key: Seq<u8>, server_seed: u32, client_seed: u32) -> Seq<u8> {
        spec_sha1(username + seq![0u8, 0u8, 0u8, 0u8] + le32(client_seed) + le32(server_seed) + session_key)
    }
}
