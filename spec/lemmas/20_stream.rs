// props: C07 C08
// ---------------------------------------------------------------------------
// C07 / C08: the header stream cipher, written from the statement:
//   c_n = (x_n XOR key[n mod L]) + c_(n-1) mod 256, c_(-1) = 0        (L = 40 Vanilla, 20 TBC)
// generalised to an arbitrary starting state (position idx, previous byte prev) so that the
// state after any number of calls can be named.
// ---------------------------------------------------------------------------
pub mod verif_spec_stream {
    #[allow(unused_imports)] use vstd::prelude::*;

    pub open spec fn enc_byte(x: u8, k: u8, prev: u8) -> u8 { (((x ^ k) as int + prev as int) % 256) as u8 }
    pub open spec fn dec_byte(c: u8, k: u8, prev: u8) -> u8 { ((((c as int) - (prev as int)) % 256) as u8) ^ k }

    pub open spec fn stream_enc(key: Seq<u8>, idx: int, prev: u8, p: Seq<u8>) -> Seq<u8>
        decreases p.len()
    {
        if p.len() == 0 { Seq::<u8>::empty() } else {
            let init = stream_enc(key, idx, prev, p.drop_last());
            let n = p.len() - 1;
            let pv = if n == 0 { prev } else { init[n - 1] };
            init.push(enc_byte(p[n], key[(idx + n) % (key.len() as int)], pv))
        }
    }

    pub open spec fn stream_dec(key: Seq<u8>, idx: int, prev: u8, c: Seq<u8>) -> Seq<u8> {
        Seq::new(c.len(), |n: int| dec_byte(c[n], key[(idx + n) % (key.len() as int)], if n == 0 { prev } else { c[n - 1] }))
    }

    /// previous-byte state after processing ciphertext `c` from state `prev`
    pub open spec fn last_or(prev: u8, c: Seq<u8>) -> u8 { if c.len() == 0 { prev } else { c[c.len() - 1] } }

    pub proof fn lemma_stream_enc_len(key: Seq<u8>, idx: int, prev: u8, p: Seq<u8>)
        ensures stream_enc(key, idx, prev, p).len() == p.len()
        decreases p.len()
    {
        if p.len() > 0 { lemma_stream_enc_len(key, idx, prev, p.drop_last()); }
    }

    /// prefix stability: encrypting a longer plaintext does not change earlier ciphertext bytes
    pub proof fn lemma_stream_enc_prefix(key: Seq<u8>, idx: int, prev: u8, p: Seq<u8>, m: int)
        requires 0 <= m <= p.len()
        ensures stream_enc(key, idx, prev, p.subrange(0, m)) == stream_enc(key, idx, prev, p).subrange(0, m)
        decreases p.len()
    {
        lemma_stream_enc_len(key, idx, prev, p);
        if m == p.len() {
            assert(p.subrange(0, m) == p);
            assert(stream_enc(key, idx, prev, p).subrange(0, m) == stream_enc(key, idx, prev, p));
        } else {
            let q = p.drop_last();
            lemma_stream_enc_len(key, idx, prev, q);
            lemma_stream_enc_prefix(key, idx, prev, q, m);
            assert(q.subrange(0, m) == p.subrange(0, m));
            assert(stream_enc(key, idx, prev, p).subrange(0, m) == stream_enc(key, idx, prev, q).subrange(0, m));
        }
    }

    /// the closed form of the statement: every ciphertext byte is (x_n ^ key[(idx+n) mod L]) + c_(n-1) mod 256
    pub proof fn lemma_stream_enc_closed_form(key: Seq<u8>, idx: int, prev: u8, p: Seq<u8>, n: int)
        requires 0 <= n < p.len()
        ensures
            stream_enc(key, idx, prev, p).len() == p.len(),
            stream_enc(key, idx, prev, p)[n] == enc_byte(p[n], key[(idx + n) % (key.len() as int)],
                if n == 0 { prev } else { stream_enc(key, idx, prev, p)[n - 1] }),
    {
        lemma_stream_enc_len(key, idx, prev, p);
        let q = p.subrange(0, n + 1);
        lemma_stream_enc_prefix(key, idx, prev, p, n + 1);
        lemma_stream_enc_len(key, idx, prev, q);
        lemma_stream_enc_len(key, idx, prev, q.drop_last());
        let e = stream_enc(key, idx, prev, q);
        assert(e[n] == stream_enc(key, idx, prev, p)[n]);
        if n > 0 {
            lemma_stream_enc_prefix(key, idx, prev, p, n);
            assert(q.drop_last() == p.subrange(0, n));
            assert(stream_enc(key, idx, prev, q.drop_last())[n - 1] == stream_enc(key, idx, prev, p)[n - 1]);
        }
    }

    /// wrapping u8 arithmetic as used by the code equals the mod-256 arithmetic of the statement
    pub proof fn lemma_enc_byte_wrapping(x: u8, k: u8, prev: u8)
        ensures enc_byte(x, k, prev) == (x ^ k).wrapping_add(prev)
    {
        let a: u8 = x ^ k;
        assert(a.wrapping_add(prev) as int == (a as int + prev as int) % 256) by {
            if a as int + prev as int > 255 { } else { }
        }
    }
    pub proof fn lemma_dec_byte_wrapping(c: u8, k: u8, prev: u8)
        ensures dec_byte(c, k, prev) == c.wrapping_sub(prev) ^ k
    {
        assert(c.wrapping_sub(prev) as int == ((c as int) - (prev as int)) % 256) by {
            if (c as int) - (prev as int) < 0 { } else { }
        }
    }

    /// the decrypter is the exact inverse
    pub proof fn lemma_dec_enc_byte(x: u8, k: u8, prev: u8)
        ensures dec_byte(enc_byte(x, k, prev), k, prev) == x
    {
        lemma_enc_byte_wrapping(x, k, prev);
        lemma_dec_byte_wrapping(enc_byte(x, k, prev), k, prev);
        let a: u8 = x ^ k;
        assert(a.wrapping_add(prev).wrapping_sub(prev) == a) by {
            let s = a.wrapping_add(prev);
            if a as int + prev as int > 255 { } else { }
        }
        assert((a ^ k) == x) by(bit_vector) requires a == x ^ k;
    }

    pub proof fn lemma_stream_inverse(key: Seq<u8>, idx: int, prev: u8, p: Seq<u8>)
        ensures
            stream_dec(key, idx, prev, stream_enc(key, idx, prev, p)) == p,
    {
        let c = stream_enc(key, idx, prev, p);
        lemma_stream_enc_len(key, idx, prev, p);
        let d = stream_dec(key, idx, prev, c);
        assert forall|n: int| 0 <= n < p.len() implies d[n] == p[n] by {
            lemma_stream_enc_closed_form(key, idx, prev, p, n);
            let pv = if n == 0 { prev } else { c[n - 1] };
            lemma_dec_enc_byte(p[n], key[(idx + n) % (key.len() as int)], pv);
        }
        assert(d =~= p);
    }

    /// chunking: one call on a ++ b equals a call on a followed by a call on b from the state a left behind
    pub proof fn lemma_stream_enc_concat(key: Seq<u8>, idx: int, prev: u8, a: Seq<u8>, b: Seq<u8>)
        requires key.len() > 0, 0 <= idx
        ensures
            stream_enc(key, idx, prev, a + b)
                == stream_enc(key, idx, prev, a)
                   + stream_enc(key, (idx + a.len()) % (key.len() as int), last_or(prev, stream_enc(key, idx, prev, a)), b),
        decreases b.len()
    {
        let l = key.len() as int;
        let ea = stream_enc(key, idx, prev, a);
        let i2 = (idx + a.len()) % l;
        let p2 = last_or(prev, ea);
        lemma_stream_enc_len(key, idx, prev, a);
        if b.len() == 0 {
            assert(a + b == a);
            assert(ea + Seq::<u8>::empty() == ea);
        } else {
            let b0 = b.drop_last();
            lemma_stream_enc_concat(key, idx, prev, a, b0);
            assert((a + b).drop_last() == a + b0);
            lemma_stream_enc_len(key, idx, prev, a + b0);
            lemma_stream_enc_len(key, i2, p2, b0);
            let n = (a + b).len() - 1;
            let m = b.len() - 1;
            assert((a + b)[n] == b[m]);
            // key positions agree: (idx + |a| + m) % l == ((idx + |a|) % l + m) % l
            assert((idx + n) % l == (i2 + m) % l) by {
                vstd::arithmetic::div_mod::lemma_add_mod_noop(idx + a.len(), m, l);
                vstd::arithmetic::div_mod::lemma_add_mod_noop(i2, m, l);
                vstd::arithmetic::div_mod::lemma_mod_twice(idx + a.len(), l);
            }
            let left_init = stream_enc(key, idx, prev, a + b0);
            let right_init = stream_enc(key, i2, p2, b0);
            assert(left_init == ea + right_init);
            // previous ciphertext byte agrees
            let pv_l = if n == 0 { prev } else { left_init[n - 1] };
            let pv_r = if m == 0 { p2 } else { right_init[m - 1] };
            assert(pv_l == pv_r);
            assert(stream_enc(key, idx, prev, a + b) =~= ea + stream_enc(key, i2, p2, b));
        }
    }

    pub proof fn lemma_stream_dec_concat(key: Seq<u8>, idx: int, prev: u8, a: Seq<u8>, b: Seq<u8>)
        requires key.len() > 0, 0 <= idx
        ensures
            stream_dec(key, idx, prev, a + b)
                == stream_dec(key, idx, prev, a) + stream_dec(key, (idx + a.len()) % (key.len() as int), last_or(prev, a), b),
    {
        let l = key.len() as int;
        let i2 = (idx + a.len()) % l;
        let lhs = stream_dec(key, idx, prev, a + b);
        let rhs = stream_dec(key, idx, prev, a) + stream_dec(key, i2, last_or(prev, a), b);
        assert forall|n: int| 0 <= n < lhs.len() implies lhs[n] == rhs[n] by {
            if n < a.len() {
            } else {
                let m = n - a.len();
                assert((idx + n) % l == (i2 + m) % l) by {
                    vstd::arithmetic::div_mod::lemma_add_mod_noop(idx + a.len(), m, l);
                    vstd::arithmetic::div_mod::lemma_add_mod_noop(i2, m, l);
                    vstd::arithmetic::div_mod::lemma_mod_twice(idx + a.len(), l);
                }
            }
        }
        assert(lhs =~= rhs);
    }

    // ---------------- histories: any partition of a stream into calls -----------------------------

    pub open spec fn flatten(chunks: Seq<Seq<u8>>) -> Seq<u8>
        decreases chunks.len()
    {
        if chunks.len() == 0 { Seq::<u8>::empty() } else { flatten(chunks.drop_last()) + chunks.last() }
    }

    /// cipher state (position, previous byte) after a sequence of encrypt calls, as the per-call contract gives it
    pub open spec fn enc_state_after(key: Seq<u8>, idx: int, prev: u8, chunks: Seq<Seq<u8>>) -> (int, u8)
        decreases chunks.len()
    {
        if chunks.len() == 0 { (idx, prev) } else {
            let s = enc_state_after(key, idx, prev, chunks.drop_last());
            ((s.0 + chunks.last().len()) % (key.len() as int), last_or(s.1, stream_enc(key, s.0, s.1, chunks.last())))
        }
    }
    /// bytes produced by a sequence of encrypt calls, each call using the per-call contract from the state left by the previous
    pub open spec fn enc_calls(key: Seq<u8>, idx: int, prev: u8, chunks: Seq<Seq<u8>>) -> Seq<u8>
        decreases chunks.len()
    {
        if chunks.len() == 0 { Seq::<u8>::empty() } else {
            let s = enc_state_after(key, idx, prev, chunks.drop_last());
            enc_calls(key, idx, prev, chunks.drop_last()) + stream_enc(key, s.0, s.1, chunks.last())
        }
    }
    pub open spec fn dec_state_after(key: Seq<u8>, idx: int, prev: u8, chunks: Seq<Seq<u8>>) -> (int, u8)
        decreases chunks.len()
    {
        if chunks.len() == 0 { (idx, prev) } else {
            let s = dec_state_after(key, idx, prev, chunks.drop_last());
            ((s.0 + chunks.last().len()) % (key.len() as int), last_or(s.1, chunks.last()))
        }
    }
    pub open spec fn dec_calls(key: Seq<u8>, idx: int, prev: u8, chunks: Seq<Seq<u8>>) -> Seq<u8>
        decreases chunks.len()
    {
        if chunks.len() == 0 { Seq::<u8>::empty() } else {
            let s = dec_state_after(key, idx, prev, chunks.drop_last());
            dec_calls(key, idx, prev, chunks.drop_last()) + stream_dec(key, s.0, s.1, chunks.last())
        }
    }

    /// C07/C08 "whatever way the bytes are split over calls": a history of encrypt calls produces the single-call stream
    pub proof fn lemma_enc_calls(key: Seq<u8>, idx: int, prev: u8, chunks: Seq<Seq<u8>>)
        requires key.len() > 0, 0 <= idx < key.len()
        ensures
            enc_calls(key, idx, prev, chunks) == stream_enc(key, idx, prev, flatten(chunks)),
            enc_state_after(key, idx, prev, chunks).0 == (idx + flatten(chunks).len()) % (key.len() as int),
            enc_state_after(key, idx, prev, chunks).1 == last_or(prev, stream_enc(key, idx, prev, flatten(chunks))),
            0 <= enc_state_after(key, idx, prev, chunks).0 < key.len(),
        decreases chunks.len()
    {
        let l = key.len() as int;
        if chunks.len() == 0 {
            assert(idx % l == idx) by { vstd::arithmetic::div_mod::lemma_small_mod(idx as nat, l as nat); }
        } else {
            let init = chunks.drop_last();
            let c = chunks.last();
            lemma_enc_calls(key, idx, prev, init);
            let s = enc_state_after(key, idx, prev, init);
            lemma_stream_enc_concat(key, idx, prev, flatten(init), c);
            lemma_stream_enc_len(key, idx, prev, flatten(init));
            lemma_stream_enc_len(key, s.0, s.1, c);
            lemma_stream_enc_len(key, idx, prev, flatten(chunks));
            assert(((idx + flatten(init).len()) % l + c.len()) % l == (idx + flatten(init).len() + c.len()) % l) by {
                vstd::arithmetic::div_mod::lemma_add_mod_noop(idx + flatten(init).len(), c.len() as int, l);
                vstd::arithmetic::div_mod::lemma_add_mod_noop((idx + flatten(init).len()) % l, c.len() as int, l);
                vstd::arithmetic::div_mod::lemma_mod_twice(idx + flatten(init).len(), l);
            }
            let whole = stream_enc(key, idx, prev, flatten(chunks));
            let ea = stream_enc(key, idx, prev, flatten(init));
            let eb = stream_enc(key, s.0, s.1, c);
            assert(whole == ea + eb);
            assert(last_or(prev, whole) == last_or(s.1, eb)) by {
                if c.len() == 0 { assert(ea + eb == ea); } else { assert(whole[whole.len() - 1] == eb[eb.len() - 1]); }
            }
        }
    }

    pub proof fn lemma_dec_calls(key: Seq<u8>, idx: int, prev: u8, chunks: Seq<Seq<u8>>)
        requires key.len() > 0, 0 <= idx < key.len()
        ensures
            dec_calls(key, idx, prev, chunks) == stream_dec(key, idx, prev, flatten(chunks)),
            dec_state_after(key, idx, prev, chunks).0 == (idx + flatten(chunks).len()) % (key.len() as int),
            dec_state_after(key, idx, prev, chunks).1 == last_or(prev, flatten(chunks)),
            0 <= dec_state_after(key, idx, prev, chunks).0 < key.len(),
        decreases chunks.len()
    {
        let l = key.len() as int;
        if chunks.len() == 0 {
            assert(idx % l == idx) by { vstd::arithmetic::div_mod::lemma_small_mod(idx as nat, l as nat); }
            assert(stream_dec(key, idx, prev, flatten(chunks)) =~= Seq::<u8>::empty());
        } else {
            let init = chunks.drop_last();
            let c = chunks.last();
            lemma_dec_calls(key, idx, prev, init);
            lemma_stream_dec_concat(key, idx, prev, flatten(init), c);
            assert(((idx + flatten(init).len()) % l + c.len()) % l == (idx + flatten(init).len() + c.len()) % l) by {
                vstd::arithmetic::div_mod::lemma_add_mod_noop(idx + flatten(init).len(), c.len() as int, l);
                vstd::arithmetic::div_mod::lemma_add_mod_noop((idx + flatten(init).len()) % l, c.len() as int, l);
                vstd::arithmetic::div_mod::lemma_mod_twice(idx + flatten(init).len(), l);
            }
            let f = flatten(chunks);
            assert(last_or(prev, f) == last_or(last_or(prev, flatten(init)), c)) by {
                if c.len() == 0 { assert(flatten(init) + c == flatten(init)); } else { assert(f[f.len() - 1] == c[c.len() - 1]); }
            }
        }
    }

    /// C07/C08 headline: a sender that splits plaintext P into calls `sent`, and a receiver that splits the resulting
    /// wire bytes into calls `recv` (any partition, empty calls included, both starting from the same state) recovers P,
    /// and both ends are left in the same state - so the argument repeats indefinitely.
    pub proof fn lemma_any_chunking_roundtrip(key: Seq<u8>, idx: int, prev: u8, sent: Seq<Seq<u8>>, recv: Seq<Seq<u8>>)
        requires
            key.len() > 0, 0 <= idx < key.len(),
            flatten(recv) == enc_calls(key, idx, prev, sent),
        ensures
            dec_calls(key, idx, prev, recv) == flatten(sent),
            dec_state_after(key, idx, prev, recv) == enc_state_after(key, idx, prev, sent),
    {
        lemma_enc_calls(key, idx, prev, sent);
        lemma_dec_calls(key, idx, prev, recv);
        lemma_stream_inverse(key, idx, prev, flatten(sent));
        lemma_stream_enc_len(key, idx, prev, flatten(sent));
    }
}
