// props: C01 C02 C03 C05
// ---------------------------------------------------------------------------
// The values of the public SRP API as functions of the inputs and the random draws (C01, C02, C03, C05).
// ---------------------------------------------------------------------------
pub mod verif_spec_srp_api {
    #[allow(unused_imports)] use vstd::prelude::*;
    use crate::verif_spec_int::*;
    use crate::verif_spec_srp::*;
    use crate::verif_spec_key::*;
    use crate::sha1::spec_sha1;

    /// v as stored: LE32(g^x mod N) for the built-in group
    pub open spec fn verifier_bytes(u: Seq<u8>, p: Seq<u8>, salt: Seq<u8>) -> Seq<u8> { le_bytes(srp_v(7, big_n(), srp_x(u, p, salt)), 32) }
    pub open spec fn server_b_int(v: Seq<u8>, b: Seq<u8>) -> int { srp_big_b(7, big_n(), 3, le_val(v), le_val(b)) }
    pub open spec fn server_s_int(a_pub: Seq<u8>, b_pub: Seq<u8>, v: Seq<u8>, b: Seq<u8>) -> int {
        srp_s_server(big_n(), le_val(a_pub), le_val(v), le_val(srp_u_bytes(a_pub, b_pub)), le_val(b))
    }
    pub open spec fn server_k(a_pub: Seq<u8>, b_pub: Seq<u8>, v: Seq<u8>, b: Seq<u8>) -> Seq<u8> { interleave(le_bytes(server_s_int(a_pub, b_pub, v, b), 32)) }
    pub open spec fn precalculated_xor_hash() -> Seq<u8> { crate::srp_internal::PRECALCULATED_XOR_HASH@ }
    pub open spec fn server_m1(u: Seq<u8>, salt: Seq<u8>, a_pub: Seq<u8>, b_pub: Seq<u8>, k: Seq<u8>) -> Seq<u8> {
        srp_m1(precalculated_xor_hash(), u, salt, a_pub, b_pub, k)
    }

    pub open spec fn client_a_int(g: u8, n: Seq<u8>, a: Seq<u8>) -> int { srp_big_a(g as int, le_val(n), le_val(a)) }
    pub open spec fn client_s_int(g: u8, n: Seq<u8>, a_pub: Seq<u8>, b_pub: Seq<u8>, x: int, a: Seq<u8>) -> int {
        srp_s_client(g as int, le_val(n), 3, le_val(b_pub), x, le_val(a), le_val(srp_u_bytes(a_pub, b_pub)))
    }
    pub open spec fn client_k(g: u8, n: Seq<u8>, a_pub: Seq<u8>, b_pub: Seq<u8>, x: int, a: Seq<u8>) -> Seq<u8> {
        interleave(le_bytes(client_s_int(g, n, a_pub, b_pub, x, a), 32))
    }
    pub open spec fn client_m1(g: u8, n: Seq<u8>, u: Seq<u8>, salt: Seq<u8>, a_pub: Seq<u8>, b_pub: Seq<u8>, k: Seq<u8>) -> Seq<u8> {
        srp_m1(srp_xor_hash(n, g), u, salt, a_pub, b_pub, k)
    }

    /// everything SrpClientChallenge::new returns, as a function of its arguments and the private key `a` it drew
    pub open spec fn client_challenge_post(c: crate::client::SrpClientChallenge, a: Seq<u8>, username: crate::normalized_string::NormalizedString,
            password: crate::normalized_string::NormalizedString, g: u8, n: Seq<u8>, b_pub: Seq<u8>, salt: Seq<u8>) -> bool {
        let a_pub = le_bytes(client_a_int(g, n, a), 32);
        let x = srp_x(ns_text(username), ns_text(password), salt);
        let k = client_k(g, n, a_pub, b_pub, x, a);
        a.len() == 32 && crate::rand::rng_bytes(a)
        && c.username == username
        && c.client_public_key.key@ == a_pub
        && c.session_key.key@ == k
        && c.client_proof.key@ == client_m1(g, n, ns_text(username), salt, a_pub, b_pub, k)
    }
}
