// props: C16
// ---------------------------------------------------------------------------
// C16: PIN digits and the seed-modulo-10! argument.
// ---------------------------------------------------------------------------
pub mod verif_spec_pin {
    #[allow(unused_imports)] use vstd::prelude::*;
    use vstd::arithmetic::div_mod::*;
    use vstd::arithmetic::mul::*;

    /// decimal digits, most significant first; 0 has no digits
    pub open spec fn decimal_digits(n: nat) -> Seq<u8>
        decreases n
    { if n == 0 { Seq::<u8>::empty() } else { decimal_digits(n / 10).push((n % 10) as u8) } }
    /// least significant first
    pub open spec fn digits_lsf(n: nat) -> Seq<u8>
        decreases n
    { if n == 0 { Seq::<u8>::empty() } else { seq![(n % 10) as u8] + digits_lsf(n / 10) } }

    pub proof fn lemma_digits_reverse(n: nat)
        ensures digits_lsf(n).reverse() == decimal_digits(n), digits_lsf(n).len() == decimal_digits(n).len()
        decreases n
    {
        if n == 0 {
            assert(digits_lsf(n).reverse() =~= decimal_digits(n));
        } else {
            lemma_digits_reverse(n / 10);
            let a = seq![(n % 10) as u8]; let b = digits_lsf(n / 10);
            assert((a + b).reverse() =~= b.reverse() + a.reverse());
            assert(a.reverse() =~= a);
            assert(b.reverse() + a =~= decimal_digits(n / 10).push((n % 10) as u8));
        }
    }
    pub proof fn lemma_digits_len_bound(n: nat, k: nat, bound: nat)
        requires n < bound, bound == vstd::arithmetic::power::pow(10, k) as nat
        ensures digits_lsf(n).len() <= k
        decreases k
    {
        reveal(vstd::arithmetic::power::pow);
        if n == 0 { } else if k == 0 { } else {
            let b2 = vstd::arithmetic::power::pow(10, (k - 1) as nat);
            assert(vstd::arithmetic::power::pow(10, k) == 10 * b2);
            vstd::arithmetic::power::lemma_pow_positive(10, (k - 1) as nat);
            assert(n / 10 < b2) by(nonlinear_arith) requires n < 10 * b2, b2 > 0;
            lemma_digits_len_bound(n / 10, (k - 1) as nat, b2 as nat);
        }
    }
    /// a u32 has at most 10 decimal digits; at least 4 digits iff >= 1000
    pub proof fn lemma_u32_digits(n: u32)
        ensures digits_lsf(n as nat).len() <= 10, (digits_lsf(n as nat).len() >= 4) == (n >= 1000), n != 0 ==> digits_lsf(n as nat).len() >= 1
    {
        assert(vstd::arithmetic::power::pow(10, 10) == 10000000000int) by(compute);
        lemma_digits_len_bound(n as nat, 10, 10000000000nat);
        assert(vstd::arithmetic::power::pow(10, 3) == 1000int) by(compute);
        if n < 1000 { lemma_digits_len_bound(n as nat, 3, 1000nat); }
        else {
            let a = n as nat; let b = a / 10; let c = b / 10; let d = c / 10;
            assert(d >= 1);
            assert(digits_lsf(d).len() >= 1);
            assert(digits_lsf(c).len() == 1 + digits_lsf(d).len());
            assert(digits_lsf(b).len() == 1 + digits_lsf(c).len());
            assert(digits_lsf(a).len() == 1 + digits_lsf(b).len());
        }
    }

    // ---- the hash of the statement
    /// the keypad layout derived from the seed (a permutation of 0..9, Kani c16_remap_perm; a function of seed mod 10!, see below)
    pub uninterp spec fn pin_layout(seed: u32) -> Seq<u8>;
    /// position of digit d in the layout
    pub open spec fn pin_position(layout: Seq<u8>, d: u8) -> int { choose|i: int| 0 <= i < layout.len() && layout[i] == d }
    /// remapped digits as ASCII
    pub open spec fn pin_ascii(pin: u32, seed: u32) -> Seq<u8> {
        let d = decimal_digits(pin as nat);
        Seq::new(d.len(), |i: int| (pin_position(pin_layout(seed), d[i]) + 0x30) as u8)
    }
    /// SHA-1(client salt | SHA-1(server salt | remapped digits as ASCII))
    pub open spec fn pin_hash(pin: u32, seed: u32, server_salt: Seq<u8>, client_salt: Seq<u8>) -> Seq<u8> {
        crate::sha1::spec_sha1(client_salt + crate::sha1::spec_sha1(server_salt + pin_ascii(pin, seed)))
    }

    // ---- "a permutation determined by the seed modulo 10!"
    // remap_pin_grid consumes the seed through the sequential remainders r_k = s_k mod (10-k), s_{k+1} = s_k div (10-k), k = 0..9.
    // Kani (c16_remap_by_digits) proves the layout is a function of (r_0..r_9) only; here: those remainders depend on s mod 10! only.
    pub open spec fn seq_state(s: nat, k: nat) -> nat
        decreases k
    { if k == 0 { s } else { seq_state(s, (k - 1) as nat) / ((10 - (k - 1)) as nat) } }
    pub open spec fn seq_rem(s: nat, k: nat) -> nat { seq_state(s, k) % ((10 - k) as nat) }
    /// product of the moduli still to come at level k: (10-k)!
    pub open spec fn fact_from(k: nat) -> nat
        decreases 10 - k
    { if k >= 10 { 1 } else { ((10 - k) as nat) * fact_from(k + 1) } }

    pub proof fn lemma_fact_pos(k: nat)
        ensures fact_from(k) > 0
        decreases 10 - k
    { if k < 10 { lemma_fact_pos(k + 1); lemma_mul_strictly_positive((10 - k) as int, fact_from(k + 1) as int); } }

    /// (s mod (r m)) mod r == s mod r   and   (s mod (r m)) div r == (s div r) mod m
    pub proof fn lemma_split(s: nat, r: nat, m: nat)
        requires r > 0, m > 0
        ensures (s % (r * m)) % r == s % r, (s % (r * m)) / r == (s / r) % m
    {
        lemma_mul_strictly_positive(r as int, m as int);
        lemma_mod_breakdown(s as int, r as int, m as int);
        lemma_mod_bound(s as int, r as int);
        lemma_mod_bound((s / r) as int, m as int);
        let q = ((s / r) % m) as int; let t = (s % r) as int;
        assert(r * q == q * r) by(nonlinear_arith);
        lemma_fundamental_div_mod_converse(q * r + t, r as int, q, t);
    }

    pub proof fn lemma_state_step(s: nat, k: nat)
        requires 0 < k <= 10
        ensures seq_state(s, k) == seq_state(s, (k - 1) as nat) / ((11 - k) as nat)
    { }

    /// the state at level k of (s mod 10!) is the state of s reduced modulo (10-k)!
    pub proof fn lemma_state_mod(s: nat, k: nat)
        requires k <= 10
        ensures seq_state(s % fact_from(0), k) == seq_state(s, k) % fact_from(k)
        decreases k
    {
        lemma_fact_pos(0);
        if k == 0 {
            assert(seq_state(s % fact_from(0), 0) == s % fact_from(0));
            assert(seq_state(s, 0) == s);
        } else {
            let j = (k - 1) as nat;
            let r = (11 - k) as nat;
            let sp = s % fact_from(0);
            lemma_state_mod(s, j);
            lemma_state_step(s, k);
            lemma_state_step(sp, k);
            lemma_fact_pos(k);
            assert(fact_from(j) == r * fact_from(k));
            let x = seq_state(s, j);
            lemma_split(x, r, fact_from(k));
            assert(seq_state(sp, j) == x % fact_from(j));
            assert(seq_state(sp, k) == (x % (r * fact_from(k))) / r);
            assert(seq_state(s, k) == x / r);
            assert((x % (r * fact_from(k))) / r == (x / r) % fact_from(k));
        }
    }

    /// C16: every sequential remainder of s equals the one of s mod 10!, hence (with Kani's c16_remap_by_digits) the layout is determined by s mod 10!
    pub proof fn lemma_rem_mod(s: nat, k: nat)
        requires k < 10
        ensures seq_rem(s % fact_from(0), k) == seq_rem(s, k)
    {
        lemma_fact_pos(0);
        lemma_state_mod(s, k);
        let r = (10 - k) as nat;
        lemma_fact_pos(k + 1);
        assert(fact_from(k) == r * fact_from(k + 1));
        lemma_split(seq_state(s, k), r, fact_from(k + 1));
    }

    pub proof fn lemma_fact_is_10_factorial()
        ensures fact_from(0) == 3628800
    { assert(fact_from(0) == 3628800) by(compute); }
}
