// props: C01 C02 C03 C05
// ---------------------------------------------------------------------------
// The World of Warcraft flavour of SRP6, written from the statement of C03 / RFC 2945:
//   SHA-1, k = 3, 32-byte little-endian fields,
//   x = H(salt | H(U ":" P)),  v = g^x mod N,  B = (k v + g^b) mod N,  A = g^a mod N,  u = H(A | B),
//   S_server = (A v^u)^b mod N,  S_client = (B - k g^x)^(a + u x) mod N,
//   K = SHA_Interleave(LE32(S)) after removing leading zero bytes and one more if an odd number remain,
//   M1 = H(H(N) xor H(g) | H(U) | salt | A | B | K),  M2 = H(A | M1 | K),
//   reconnect proof = H(U | client data | server data | K).
// Hash outputs are read as little-endian integers.
// ---------------------------------------------------------------------------
pub mod verif_spec_srp {
    #[allow(unused_imports)] use vstd::prelude::*;
    use vstd::arithmetic::power::*;
    use vstd::arithmetic::div_mod::*;
    use vstd::arithmetic::mul::*;
    use crate::verif_spec_int::*;
    use crate::sha1::spec_sha1;

    pub open spec fn colon() -> Seq<u8> { seq![0x3au8] }
    pub open spec fn srp_x_bytes(u: Seq<u8>, p: Seq<u8>, salt: Seq<u8>) -> Seq<u8> { spec_sha1(salt + spec_sha1(u + colon() + p)) }
    pub open spec fn srp_x(u: Seq<u8>, p: Seq<u8>, salt: Seq<u8>) -> int { le_val(srp_x_bytes(u, p, salt)) }
    pub open spec fn srp_v(g: int, n: int, x: int) -> int { modpow_spec(g, x, n) }
    pub open spec fn srp_big_b(g: int, n: int, k: int, v: int, b: int) -> int { (k * v + modpow_spec(g, b, n)) % n }
    pub open spec fn srp_big_a(g: int, n: int, a: int) -> int { modpow_spec(g, a, n) }
    pub open spec fn srp_u_bytes(a_pub: Seq<u8>, b_pub: Seq<u8>) -> Seq<u8> { spec_sha1(a_pub + b_pub) }
    pub open spec fn srp_s_server(n: int, a_pub: int, v: int, u: int, b: int) -> int { modpow_spec(a_pub * modpow_spec(v, u, n), b, n) }
    pub open spec fn srp_s_client(g: int, n: int, k: int, b_pub: int, x: int, a: int, u: int) -> int {
        modpow_spec(b_pub - k * modpow_spec(g, x, n), a + u * x, n)
    }

    // ---- interleave
    /// number of leading (index 0 upwards = low-order) zero bytes
    pub open spec fn lead_zeros(s: Seq<u8>) -> nat
        decreases s.len()
    { if s.len() == 0 || s[0] != 0 { 0 } else { 1 + lead_zeros(s.subrange(1, s.len() as int)) } }
    /// "removing leading zero bytes and one more if an odd number remain"
    pub open spec fn strip(s: Seq<u8>) -> Seq<u8> {
        let l = lead_zeros(s);
        let l2 = if l % 2 == 1 && l < s.len() { l + 1 } else { l };
        s.subrange(l2 as int, s.len() as int)
    }
    /// characterisation of lead_zeros used by the scan loop: the first l bytes are zero and byte l (if any) is not
    pub proof fn lemma_lead_zeros(s: Seq<u8>, l: nat)
        requires l <= s.len(), forall|i: int| 0 <= i < l ==> s[i] == 0, l < s.len() ==> s[l as int] != 0
        ensures lead_zeros(s) == l
        decreases l
    {
        if l > 0 {
            let t = s.subrange(1, s.len() as int);
            assert forall|i: int| 0 <= i < l - 1 implies t[i] == 0 by { assert(t[i] == s[i + 1]); }
            lemma_lead_zeros(t, (l - 1) as nat);
        }
    }
    pub open spec fn evens(t: Seq<u8>) -> Seq<u8> { Seq::new(t.len() / 2, |i: int| t[2 * i]) }
    pub open spec fn odds(t: Seq<u8>) -> Seq<u8> { Seq::new(t.len() / 2, |i: int| t[2 * i + 1]) }
    pub open spec fn zip40(g: Seq<u8>, h: Seq<u8>) -> Seq<u8> { Seq::new(40, |i: int| if i % 2 == 0 { g[i / 2] } else { h[i / 2] }) }
    pub open spec fn interleave(s: Seq<u8>) -> Seq<u8> { zip40(spec_sha1(evens(strip(s))), spec_sha1(odds(strip(s)))) }

    pub open spec fn xor20(a: Seq<u8>, b: Seq<u8>) -> Seq<u8> { Seq::new(20, |i: int| a[i] ^ b[i]) }
    pub open spec fn srp_xor_hash(n_le: Seq<u8>, g: u8) -> Seq<u8> { xor20(spec_sha1(n_le), spec_sha1(seq![g])) }
    pub open spec fn srp_m1(xor_hash: Seq<u8>, u: Seq<u8>, salt: Seq<u8>, a_pub: Seq<u8>, b_pub: Seq<u8>, k: Seq<u8>) -> Seq<u8> {
        spec_sha1(xor_hash + spec_sha1(u) + salt + a_pub + b_pub + k)
    }
    pub open spec fn srp_m2(a_pub: Seq<u8>, m1: Seq<u8>, k: Seq<u8>) -> Seq<u8> { spec_sha1(a_pub + m1 + k) }
    pub open spec fn srp_reconnect_proof(u: Seq<u8>, client_data: Seq<u8>, server_data: Seq<u8>, k: Seq<u8>) -> Seq<u8> {
        spec_sha1(u + client_data + server_data + k)
    }

    // ---- algebra
    pub proof fn lemma_modpow_range(b: int, e: int, m: int)
        requires m > 0, e >= 0
        ensures 0 <= modpow_spec(b, e, m) < m
    { lemma_mod_bound(pow(b, e as nat), m); }

    /// modpow(b % m, e, m) == modpow(b, e, m), any sign of b
    pub proof fn lemma_modpow_base_mod(b: int, e: nat, m: int)
        requires m > 0
        ensures pow(b % m, e) % m == pow(b, e) % m
    { lemma_pow_mod_noop(b, e, m); }

    /// (g^x mod n)^u mod n == g^(x u) mod n
    pub proof fn lemma_modpow_compose(g: int, x: nat, u: nat, n: int)
        requires n > 0
        ensures pow(pow(g, x) % n, u) % n == pow(g, x * u) % n
    {
        lemma_pow_mod_noop(pow(g, x), u, n);
        lemma_pow_multiplies(g, x, u);
    }

    /// C01: both sides compute the same secret, for every g, N > 0, k, a, b, x, u >= 0 - including the case where
    /// B - k v is negative before reduction (modpow is Euclidean in the base).
    pub proof fn lemma_srp_agree(g: int, n: int, k: int, a: nat, b: nat, x: nat, u: nat)
        requires n > 0
        ensures
            srp_s_server(n, srp_big_a(g, n, a as int), srp_v(g, n, x as int), u as int, b as int)
                == srp_s_client(g, n, k, srp_big_b(g, n, k, srp_v(g, n, x as int), b as int), x as int, a as int, u as int),
    {
        let v = pow(g, x) % n;
        let big_a = pow(g, a) % n;
        let gb = pow(g, b) % n;
        let big_b = (k * v + gb) % n;
        // ---- server: (A * v^u mod n)^b mod n == g^((a + u x) b) mod n
        let vu = pow(v, u) % n;
        assert(vu == pow(g, x * u) % n) by { lemma_modpow_compose(g, x, u, n); }
        assert((big_a * vu) % n == pow(g, a + x * u) % n) by {
            lemma_mul_mod_noop(pow(g, a), pow(g, x * u), n);
            lemma_pow_adds(g, a, x * u);
        }
        assert(x * u == u * x) by(nonlinear_arith);
        let e = a + u * x;
        assert(pow(big_a * vu, b) % n == pow(g, e * b) % n) by {
            lemma_modpow_base_mod(big_a * vu, b, n);
            lemma_modpow_compose(g, e, b, n);
        }
        // ---- client: (B - k v) mod n == g^b mod n, hence (B - k v)^(a + u x) mod n == g^(b (a + u x)) mod n
        assert((big_b - k * v) % n == gb) by {
            lemma_sub_mod_noop(k * v + gb, k * v, n);
            lemma_mod_twice(k * v + gb, n);
            assert((k * v + gb - k * v) % n == gb % n);
            lemma_mod_twice(pow(g, b), n);
            // (big_b - k v) % n == ((k v + gb) % n - (k v) % n) % n == (k v + gb - k v) % n
            lemma_sub_mod_noop(big_b, k * v, n);
        }
        assert(pow(big_b - k * v, e) % n == pow(g, b * e) % n) by {
            lemma_modpow_base_mod(big_b - k * v, e, n);
            lemma_modpow_compose(g, b, e, n);
        }
        assert(e * b == b * e) by(nonlinear_arith);
        assert(u as int * x as int == (u * x) as int);
        assert((a + u * x) as int == a as int + (u as int) * (x as int)) by(nonlinear_arith) requires e == a + u * x;
    }
}
