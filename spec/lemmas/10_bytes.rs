// ---------------------------------------------------------------------------
// Specification vocabulary written from the property statements (not from the code):
// byte layouts of fixed-width integers.
// ---------------------------------------------------------------------------
pub mod verif_spec {
    #[allow(unused_imports)] use vstd::prelude::*;
    pub use crate::verif_spec_stream::*;
    pub use crate::verif_spec_int::*;
    pub use crate::verif_spec_vanilla::*;
    pub use crate::verif_spec_tbc::*;
    pub use crate::verif_spec_rc4::*;
    pub use crate::verif_spec_wrath::*;
    pub use crate::verif_spec_key::*;
    pub use crate::verif_spec_world::*;
    pub use crate::verif_spec_srp::*;
    pub use crate::verif_spec_srp_api::*;
    pub use crate::verif_spec_srp_theorems::*;
    pub use crate::verif_spec_integrity::*;
    pub use crate::verif_spec_pin::*;
    pub use crate::verif_spec_matrix::*;

    pub open spec fn be16(x: u16) -> Seq<u8> { seq![(x / 256) as u8, (x % 256) as u8] }
    pub open spec fn le16(x: u16) -> Seq<u8> { seq![(x % 256) as u8, (x / 256) as u8] }
    pub open spec fn be32(x: u32) -> Seq<u8> {
        seq![(x / 0x1000000) as u8, ((x / 0x10000) % 256) as u8, ((x / 0x100) % 256) as u8, (x % 256) as u8]
    }
    pub open spec fn le32(x: u32) -> Seq<u8> {
        seq![(x % 256) as u8, ((x / 0x100) % 256) as u8, ((x / 0x10000) % 256) as u8, (x / 0x1000000) as u8]
    }
    pub open spec fn le64(x: u64) -> Seq<u8> {
        seq![(x % 256) as u8, ((x / 0x100) % 256) as u8, ((x / 0x10000) % 256) as u8, ((x / 0x1000000) % 256) as u8,
             ((x / 0x100000000) % 256) as u8, ((x / 0x10000000000) % 256) as u8, ((x / 0x1000000000000) % 256) as u8,
             (x / 0x100000000000000) as u8]
    }

    /// positional reading of be32 used by the Wrath long header (bytes 1..3 of the big-endian u32)
    pub proof fn lemma_be32_bytes(x: u32)
        ensures be32(x).len() == 4, be32(x)[1] == ((x / 0x10000) % 256) as u8, be32(x)[2] == ((x / 0x100) % 256) as u8, be32(x)[3] == (x % 256) as u8,
                x <= 0xFFFF ==> be32(x)[2] == ((x as u16) / 256) as u8 && be32(x)[3] == ((x as u16) % 256) as u8,
    { }

    pub proof fn lemma_be32_value(x: u32)
        ensures x as int == (be32(x)[0] as int) * 0x1000000 + (be32(x)[1] as int) * 0x10000 + (be32(x)[2] as int) * 0x100 + (be32(x)[3] as int)
    { }

    // be16/le16/be32/le32 are injective: a value is determined by its bytes
    pub proof fn lemma_be16_inj(a: u16, b: u16)
        requires be16(a) == be16(b)
        ensures a == b
    {
        assert(be16(a)[0] == be16(b)[0]); assert(be16(a)[1] == be16(b)[1]);
    }
    pub proof fn lemma_le16_inj(a: u16, b: u16)
        requires le16(a) == le16(b)
        ensures a == b
    {
        assert(le16(a)[0] == le16(b)[0]); assert(le16(a)[1] == le16(b)[1]);
    }
    pub proof fn lemma_le32_inj(a: u32, b: u32)
        requires le32(a) == le32(b)
        ensures a == b
    {
        assert(le32(a)[0] == le32(b)[0]); assert(le32(a)[1] == le32(b)[1]);
        assert(le32(a)[2] == le32(b)[2]); assert(le32(a)[3] == le32(b)[3]);
    }
    pub proof fn lemma_be32_inj(a: u32, b: u32)
        requires be32(a) == be32(b)
        ensures a == b
    {
        assert(be32(a)[0] == be32(b)[0]); assert(be32(a)[1] == be32(b)[1]);
        assert(be32(a)[2] == be32(b)[2]); assert(be32(a)[3] == be32(b)[3]);
    }
}
