// props: C17
// ---------------------------------------------------------------------------
// C17: integrity hash = SHA-1(client public key | HMAC-SHA1(checksum salt, files concatenated in order))
// ---------------------------------------------------------------------------
pub mod verif_spec_integrity {
    #[allow(unused_imports)] use vstd::prelude::*;
    use crate::sha1::spec_sha1;
    use crate::hmac::spec_hmac_sha1;
    pub open spec fn integrity_hash(key: Seq<u8>, salt: Seq<u8>, files: Seq<u8>) -> Seq<u8> { spec_sha1(key + spec_hmac_sha1(salt, files)) }

    /// the result depends only on the concatenation: any two ways of distributing the same bytes over the five
    /// file arguments (empty files included), or passing them as one buffer, give the same hash
    pub proof fn lemma_c17_split_independent(key: Seq<u8>, salt: Seq<u8>, a1: Seq<u8>, a2: Seq<u8>, a3: Seq<u8>, a4: Seq<u8>, a5: Seq<u8>,
                                             b1: Seq<u8>, b2: Seq<u8>, b3: Seq<u8>, b4: Seq<u8>, b5: Seq<u8>, all: Seq<u8>)
        requires a1 + a2 + a3 + a4 + a5 == all, b1 + b2 + b3 + b4 + b5 == all
        ensures integrity_hash(key, salt, a1 + a2 + a3 + a4 + a5) == integrity_hash(key, salt, b1 + b2 + b3 + b4 + b5),
                integrity_hash(key, salt, a1 + a2 + a3 + a4 + a5) == integrity_hash(key, salt, all),
    { }
}
