// props: C18
// ---------------------------------------------------------------------------
// C18: matrix cards.  Cells are printed in the order data.chunks(digit_count) yields them (std documentation of `chunks`,
// trusted): cell number n is data[n*dc .. (n+1)*dc]; the cell at row y, column x is number y*width + x.
// Challenged coordinates are drawn without replacement from 0..width*height using the seed as a mixed-radix number.
// ---------------------------------------------------------------------------
pub mod verif_spec_matrix {
    #[allow(unused_imports)] use vstd::prelude::*;
    use crate::matrix_card::{MatrixCard, MatrixCardVerifier};
    use crate::verif_spec_rc4::*;
    use crate::verif_spec::le64;
    use crate::hmac::{spec_hmac_sha1, Mac};
    use crate::md5::spec_md5;
    use crate::verif_spec_wrath::rc4_view;

    pub open spec fn mc_wf(c: MatrixCard) -> bool { c.data@.len() == (c.digit_count as int) * (c.height as int) * (c.width as int) }
    /// the n-th printed cell
    pub open spec fn mc_printed_cell(c: MatrixCard, n: int) -> Seq<u8> { c.data@.subrange(n * (c.digit_count as int), (n + 1) * (c.digit_count as int)) }
    /// the cell printed at row y, column x
    pub open spec fn mc_cell(c: MatrixCard, x: int, y: int) -> Seq<u8> { mc_printed_cell(c, y * (c.width as int) + x) }

    pub open spec fn deref_seq(s: Seq<&u8>) -> Seq<u8> { Seq::new(s.len(), |i: int| *s[i]) }

    // ---- selection without replacement
    pub open spec fn identity_cells(n: nat) -> Seq<u8> { Seq::new(n, |i: int| i as u8) }
    pub open spec fn distinct(s: Seq<u8>) -> bool { forall|i: int, j: int| 0 <= i < j < s.len() ==> s[i] != s[j] }
    pub open spec fn gen_coords(live: Seq<u8>, count: nat, seed: nat) -> Seq<u8>
        decreases count
    {
        if count == 0 || live.len() == 0 { Seq::<u8>::empty() } else {
            let idx = (seed % live.len()) as int;
            seq![live[idx]] + gen_coords(live.remove(idx), (count - 1) as nat, seed / live.len())
        }
    }
    pub open spec fn coords_spec(width: u8, height: u8, count: u8, seed: u64) -> Seq<u8> {
        gen_coords(identity_cells(((width as int) * (height as int)) as nat), count as nat, seed as nat)
    }

    /// drawing `count <= |live|` elements from a duplicate-free pool gives `count` pairwise distinct elements of the pool
    pub proof fn lemma_gen_coords_props(live: Seq<u8>, count: nat, seed: nat)
        requires distinct(live), count <= live.len()
        ensures
            gen_coords(live, count, seed).len() == count,
            distinct(gen_coords(live, count, seed)),
            forall|k: int| 0 <= k < count ==> live.contains(#[trigger] gen_coords(live, count, seed)[k]),
        decreases count
    {
        if count == 0 || live.len() == 0 { } else {
            let idx = (seed % live.len()) as int;
            let rest_pool = live.remove(idx);
            assert(distinct(rest_pool)) by {
                assert forall|i: int, j: int| 0 <= i < j < rest_pool.len() implies rest_pool[i] != rest_pool[j] by {
                    let a = if i < idx { i } else { i + 1 }; let b = if j < idx { j } else { j + 1 };
                    assert(rest_pool[i] == live[a] && rest_pool[j] == live[b]);
                }
            }
            lemma_gen_coords_props(rest_pool, (count - 1) as nat, seed / live.len());
            let rest = gen_coords(rest_pool, (count - 1) as nat, seed / live.len());
            let r = gen_coords(live, count, seed);
            assert(r =~= seq![live[idx]] + rest);
            assert forall|k: int| 0 <= k < count implies live.contains(#[trigger] r[k]) by {
                if k == 0 { assert(live[idx] == r[0]); } else {
                    assert(rest_pool.contains(rest[k - 1]));
                    let w = choose|w: int| 0 <= w < rest_pool.len() && rest_pool[w] == rest[k - 1];
                    let a = if w < idx { w } else { w + 1 };
                    assert(live[a] == rest[k - 1]);
                }
            }
            assert forall|i: int, j: int| 0 <= i < j < r.len() implies r[i] != r[j] by {
                if i == 0 {
                    assert(rest_pool.contains(rest[j - 1]));
                    let w = choose|w: int| 0 <= w < rest_pool.len() && rest_pool[w] == rest[j - 1];
                    let a = if w < idx { w } else { w + 1 };
                    assert(live[a] == rest[j - 1] && a != idx);
                } else { assert(rest[i - 1] != rest[j - 1]); }
            }
        }
    }

    /// C18: the challenged coordinates for rounds 0..count-1 are pairwise distinct and lie on the card
    pub proof fn lemma_coords_on_card(width: u8, height: u8, count: u8, seed: u64)
        requires 1 <= (width as int) * (height as int) <= 255, count as int <= (width as int) * (height as int)
        ensures
            coords_spec(width, height, count, seed).len() == count,
            distinct(coords_spec(width, height, count, seed)),
            forall|k: int| 0 <= k < count ==> (#[trigger] coords_spec(width, height, count, seed)[k] as int) < (width as int) * (height as int),
    {
        let n = ((width as int) * (height as int)) as nat;
        let live = identity_cells(n);
        lemma_gen_coords_props(live, count as nat, seed as nat);
        let r = coords_spec(width, height, count, seed);
        assert forall|k: int| 0 <= k < count implies (#[trigger] r[k] as int) < n by {
            assert(live.contains(r[k]));
            let w = choose|w: int| 0 <= w < live.len() && live[w] == r[k];
            assert(live[w] == w as u8);
        }
    }

    // ---- the proof value
    pub open spec fn matrix_key(seed: u64, session_key: Seq<u8>) -> Seq<u8> { spec_md5(le64(seed) + session_key) }
    /// HMAC-SHA1 keyed by MD5(seed | session key) over the RC4-encrypted digits
    pub open spec fn matrix_proof(seed: u64, session_key: Seq<u8>, digits: Seq<u8>) -> Seq<u8> {
        let k = matrix_key(seed, session_key);
        spec_hmac_sha1(k, xor_seq(digits, keystream(rc4_init(k), digits.len())))
    }
    /// digits of the challenged cells, in round order
    pub open spec fn challenged_digits(c: MatrixCard, coords: Seq<u8>, rounds: nat) -> Seq<u8>
        decreases rounds
    {
        if rounds == 0 { Seq::<u8>::empty() } else {
            let co = coords[rounds - 1] as int;
            challenged_digits(c, coords, (rounds - 1) as nat) + mc_cell(c, co % (c.width as int), co / (c.width as int))
        }
    }
    /// state of a verifier after `digits` have been entered since construction
    #[verifier::opaque]
    pub open spec fn mcv_after(v: MatrixCardVerifier, seed: u64, session_key: Seq<u8>, digits: Seq<u8>) -> bool {
        let k = matrix_key(seed, session_key);
        v.hmac.key() == k
        && v.hmac.absorbed() == xor_seq(digits, keystream(rc4_init(k), digits.len()))
        && rc4_view(v.rc4) == advance(rc4_init(k), digits.len())
    }
    pub open spec fn mcv_wf(v: MatrixCardVerifier) -> bool {
        v.width > 0 && v.coordinates@.len() == v.challenge_count
        && (forall|k: int| 0 <= k < v.challenge_count ==> (#[trigger] v.coordinates@[k] as int) < (v.width as int) * (v.height as int))
    }

    /// entering one more digit (contract of enter_value) keeps the "entered so far" description
    pub proof fn lemma_enter_one(st: Rc4State, digits: Seq<u8>, d: u8)
        ensures
            xor_seq(digits.push(d), keystream(st, digits.len() + 1)) == xor_seq(digits, keystream(st, digits.len())).push(d ^ prga_out(advance(st, digits.len()))),
            advance(st, digits.len() + 1) == prga_next(advance(st, digits.len())),
    {
        lemma_keystream_len(st, digits.len());
        assert(keystream(st, digits.len() + 1) == keystream(st, digits.len()).push(prga_out(advance(st, digits.len()))));
        assert(xor_seq(digits.push(d), keystream(st, digits.len() + 1)) =~= xor_seq(digits, keystream(st, digits.len())).push(d ^ prga_out(advance(st, digits.len()))));
    }

    /// one enter_value call (its contract) extends the entered digits by one
    pub proof fn lemma_mcv_step(a: MatrixCardVerifier, b: MatrixCardVerifier, seed: u64, session_key: Seq<u8>, entered: Seq<u8>, d: u8)
        requires
            mcv_after(a, seed, session_key, entered),
            b.hmac.key() == a.hmac.key(),
            b.hmac.absorbed() == a.hmac.absorbed().push(d ^ prga_out(rc4_view(a.rc4))),
            rc4_view(b.rc4) == prga_next(rc4_view(a.rc4)),
        ensures mcv_after(b, seed, session_key, entered.push(d))
    {
        reveal(mcv_after);
        lemma_enter_one(rc4_init(matrix_key(seed, session_key)), entered, d);
        assert(entered.push(d).len() == entered.len() + 1);
    }
    pub proof fn lemma_mcv_init(v: MatrixCardVerifier, seed: u64, session_key: Seq<u8>)
        requires v.hmac.key() == matrix_key(seed, session_key), v.hmac.absorbed() == Seq::<u8>::empty(), rc4_view(v.rc4) == rc4_init(matrix_key(seed, session_key))
        ensures mcv_after(v, seed, session_key, Seq::<u8>::empty())
    {
        reveal(mcv_after);
        assert(xor_seq(Seq::<u8>::empty(), keystream(rc4_init(matrix_key(seed, session_key)), 0)) =~= Seq::<u8>::empty());
    }
    /// the value into_proof returns after `digits` have been entered
    pub proof fn lemma_mcv_final(v: MatrixCardVerifier, seed: u64, session_key: Seq<u8>, digits: Seq<u8>)
        requires mcv_after(v, seed, session_key, digits)
        ensures spec_hmac_sha1(v.hmac.key(), v.hmac.absorbed()) == matrix_proof(seed, session_key, digits)
    { reveal(mcv_after); }
}
