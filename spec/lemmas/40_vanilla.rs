// props: C07 C11 C12
// ---------------------------------------------------------------------------
// Vanilla header halves as abstract state machines (C07, C11, C12).  Wire layouts are the
// statement's: server header = big-endian u16 size ++ little-endian u16 opcode,
// client header = big-endian u16 size ++ little-endian u32 opcode.
// ---------------------------------------------------------------------------
pub mod verif_spec_vanilla {
    #[allow(unused_imports)] use vstd::prelude::*;
    use crate::verif_spec::*;
    use crate::vanilla_header::encrypt::EncrypterHalf;
    use crate::vanilla_header::decrypt::DecrypterHalf;
    use crate::vanilla_header::{ServerHeader, ClientHeader, HeaderCrypto};

    pub open spec fn server_header_bytes(h: ServerHeader) -> Seq<u8> { be16(h.size) + le16(h.opcode) }
    pub open spec fn client_header_bytes(h: ClientHeader) -> Seq<u8> { be16(h.size) + le32(h.opcode) }

    pub open spec fn venc_wf(e: EncrypterHalf) -> bool { e.index < 40 }
    pub open spec fn vdec_wf(d: DecrypterHalf) -> bool { d.index < 40 }
    pub open spec fn venc_out(e: EncrypterHalf, p: Seq<u8>) -> Seq<u8> {
        stream_enc(e.session_key@, e.index as int, e.previous_value, p)
    }
    pub open spec fn venc_next(e: EncrypterHalf, p: Seq<u8>) -> EncrypterHalf {
        EncrypterHalf { session_key: e.session_key, index: ((e.index as int + p.len()) % 40) as u8,
                        previous_value: last_or(e.previous_value, venc_out(e, p)) }
    }
    pub open spec fn vdec_out(d: DecrypterHalf, c: Seq<u8>) -> Seq<u8> {
        stream_dec(d.session_key@, d.index as int, d.previous_value, c)
    }
    pub open spec fn vdec_next(d: DecrypterHalf, c: Seq<u8>) -> DecrypterHalf {
        DecrypterHalf { session_key: d.session_key, index: ((d.index as int + c.len()) % 40) as u8,
                        previous_value: last_or(d.previous_value, c) }
    }
    pub open spec fn vanilla_new_enc(k: [u8; 40]) -> EncrypterHalf { EncrypterHalf { session_key: k, index: 0, previous_value: 0 } }
    pub open spec fn vanilla_new_dec(k: [u8; 40]) -> DecrypterHalf { DecrypterHalf { session_key: k, index: 0, previous_value: 0 } }

    /// in-step: a sender half and the peer's receiver half that agree on (key, position, previous byte)
    pub open spec fn v_in_step(e: EncrypterHalf, d: DecrypterHalf) -> bool {
        e.session_key@ == d.session_key@ && e.index == d.index && e.previous_value == d.previous_value && e.index < 40
    }

    /// C07: what one side encrypts the other side decrypts, and they stay in step - for one call of any length.
    /// Together with verif_spec_stream::lemma_any_chunking_roundtrip this extends to any partition on either side.
    pub proof fn lemma_vanilla_roundtrip(e: EncrypterHalf, d: DecrypterHalf, p: Seq<u8>)
        requires v_in_step(e, d)
        ensures
            vdec_out(d, venc_out(e, p)) == p,
            v_in_step(venc_next(e, p), vdec_next(d, venc_out(e, p))),
    {
        lemma_stream_inverse(e.session_key@, e.index as int, e.previous_value, p);
        lemma_stream_enc_len(e.session_key@, e.index as int, e.previous_value, p);
    }

    /// C07/C11: a server header survives encrypt_server_header -> decrypt_server_header
    pub proof fn lemma_vanilla_server_header_roundtrip(e: EncrypterHalf, d: DecrypterHalf, size: u16, opcode: u16, h: ServerHeader)
        requires v_in_step(e, d), server_header_bytes(h) == vdec_out(d, venc_out(e, be16(size) + le16(opcode)))
        ensures h.size == size, h.opcode == opcode
    {
        let p = be16(size) + le16(opcode);
        lemma_vanilla_roundtrip(e, d, p);
        let q = server_header_bytes(h);
        assert(q.subrange(0, 2) =~= be16(h.size)); assert(p.subrange(0, 2) =~= be16(size));
        assert(q.subrange(2, 4) =~= le16(h.opcode)); assert(p.subrange(2, 4) =~= le16(opcode));
        lemma_be16_inj(h.size, size); lemma_le16_inj(h.opcode, opcode);
    }
    pub proof fn lemma_vanilla_client_header_roundtrip(e: EncrypterHalf, d: DecrypterHalf, size: u16, opcode: u32, h: ClientHeader)
        requires v_in_step(e, d), client_header_bytes(h) == vdec_out(d, venc_out(e, be16(size) + le32(opcode)))
        ensures h.size == size, h.opcode == opcode
    {
        let p = be16(size) + le32(opcode);
        lemma_vanilla_roundtrip(e, d, p);
        let q = client_header_bytes(h);
        assert(q.subrange(0, 2) =~= be16(h.size)); assert(p.subrange(0, 2) =~= be16(size));
        assert(q.subrange(2, 6) =~= le32(h.opcode)); assert(p.subrange(2, 6) =~= le32(opcode));
        lemma_be16_inj(h.size, size); lemma_le32_inj(h.opcode, opcode);
    }
    /// zero-length calls change nothing (C07)
    pub proof fn lemma_vanilla_empty_call(e: EncrypterHalf, d: DecrypterHalf)
        requires venc_wf(e), vdec_wf(d)
        ensures venc_next(e, Seq::<u8>::empty()) == e, vdec_next(d, Seq::<u8>::empty()) == d,
                venc_out(e, Seq::<u8>::empty()) == Seq::<u8>::empty(), vdec_out(d, Seq::<u8>::empty()) =~= Seq::<u8>::empty(),
    {
    }
}
