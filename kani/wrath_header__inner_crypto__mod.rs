// Appended (add-only) to src/wrath_header/inner_crypto/mod.rs of the scratch copy.
#[cfg(kani)]
pub mod verif_kani {
    use super::*;
    pub fn verif_inner(r: Rc4) -> InnerCrypto { InnerCrypto { inner: r } }
    pub fn verif_inner_rc4(c: &InnerCrypto) -> &Rc4 { &c.inner }
}
