//! External Kani harness crate for NormalizedString::new (C13).
//! The crate under verification forbids `unsafe`; building a `&str` from symbolic bytes without running
//! `str::from_utf8` symbolically (measured: does not terminate) needs `from_utf8_unchecked`, so these harnesses
//! live here and reach the private representation through the accessor appended to normalized_string.rs.
#![allow(unused)]
#[cfg(kani)]
mod harnesses {
    use wow_srp::error::NormalizedStringError;
    use wow_srp::normalized_string::verif_kani::verif_parts;
    use wow_srp::normalized_string::NormalizedString;

    fn printable(b: u8) -> bool { b >= 0x20 && b <= 0x7E }
    fn upper(b: u8) -> u8 { if b >= b'a' && b <= b'z' { b - 32 } else { b } }

    /// every string of 0..=20 bytes whose bytes are all ASCII (< 0x80; printable, control and DEL alike)
    #[kani::proof]
    #[kani::unwind(22)]
    fn c13_ascii() {
        let bytes: [u8; 20] = kani::any();
        let len: usize = kani::any();
        kani::assume(len <= 20);
        let mut i = 0;
        while i < 20 { kani::assume(bytes[i] < 0x80); i += 1; }
        let s: &str = unsafe { core::str::from_utf8_unchecked(&bytes[..len]) };
        let r = NormalizedString::new(s);
        // expectation from the statement
        let mut first_bad: Option<u8> = None;
        let mut i = 0;
        while i < 20 {
            if i < len && first_bad.is_none() && !printable(bytes[i]) { first_bad = Some(bytes[i]); }
            i += 1;
        }
        let mut ok = true;
        match r {
            Ok(n) => {
                let (arr, l) = verif_parts(&n);
                ok &= len >= 1 && len <= 16 && first_bad.is_none();
                ok &= l as usize == len;
                let mut i = 0;
                while i < 16 {
                    if i < len { ok &= arr[i] == upper(bytes[i]); } else { ok &= arr[i] == 0; }
                    i += 1;
                }
                kani::cover!(len == 16);
                kani::cover!(len == 1);
            }
            Err(NormalizedStringError::StringTooLong) => { ok &= len == 0 || len > 16; }
            Err(NormalizedStringError::CharacterNotAllowed(c)) => {
                ok &= len >= 1 && len <= 16;
                ok &= first_bad.is_some() && first_bad.unwrap() as u32 == c as u32;
                kani::cover!(true);
            }
        }
        assert!(ok, "C13 NormalizedString::new on ASCII strings of up to 20 bytes");
    }

    /// K printable ASCII bytes, then one arbitrary scalar value that is not printable ASCII (control, DEL, 2-, 3-, 4-byte),
    /// then unconstrained bytes up to a total of 20 (never decoded by the function under test: over-approximates every valid tail)
    fn bad_at<const K: usize>() {
        let mut bytes: [u8; 24] = kani::any();
        let mut i = 0;
        while i < K { kani::assume(printable(bytes[i])); i += 1; }
        let c: char = kani::any();
        kani::assume(!(c as u32 >= 0x20 && c as u32 <= 0x7E));
        let mut enc = [0u8; 4];
        let clen = c.encode_utf8(&mut enc).len();
        let mut j = 0;
        while j < 4 { if j < clen { bytes[K + j] = enc[j]; } j += 1; }
        let len: usize = kani::any();
        kani::assume(len >= K + clen && len <= 20);
        let s: &str = unsafe { core::str::from_utf8_unchecked(&bytes[..len]) };
        let r = NormalizedString::new(s);
        kani::cover!(clen == 4);
        kani::cover!(len <= 16);
        kani::cover!(clen == 1);
        kani::cover!(len > 16);
        match r {
            Ok(_) => assert!(false, "C13 a string containing a non-printable character must be rejected"),
            Err(NormalizedStringError::StringTooLong) => assert!(len > 16, "C13 length error only beyond 16 bytes"),
            Err(NormalizedStringError::CharacterNotAllowed(e)) => assert!(len <= 16 && e == c, "C13 first offending character is reported"),
        }
    }
    macro_rules! bad_at_harness { ($name:ident, $k:expr) => { #[kani::proof] #[kani::unwind(26)] fn $name() { bad_at::<$k>(); } }; }
    bad_at_harness!(c13_bad_at_00, 0);
    bad_at_harness!(c13_bad_at_01, 1);
    bad_at_harness!(c13_bad_at_02, 2);
    bad_at_harness!(c13_bad_at_03, 3);
    bad_at_harness!(c13_bad_at_04, 4);
    bad_at_harness!(c13_bad_at_05, 5);
    bad_at_harness!(c13_bad_at_06, 6);
    bad_at_harness!(c13_bad_at_07, 7);
    bad_at_harness!(c13_bad_at_08, 8);
    bad_at_harness!(c13_bad_at_09, 9);
    bad_at_harness!(c13_bad_at_10, 10);
    bad_at_harness!(c13_bad_at_11, 11);
    bad_at_harness!(c13_bad_at_12, 12);
    bad_at_harness!(c13_bad_at_13, 13);
    bad_at_harness!(c13_bad_at_14, 14);
    bad_at_harness!(c13_bad_at_15, 15);

    /// every byte string of 17..=64 bytes is a length error (BOUNDED at 64 bytes)
    #[kani::proof]
    #[kani::unwind(66)]
    fn c13_long64() {
        let bytes: [u8; 64] = kani::any();
        let len: usize = kani::any();
        kani::assume(len >= 17 && len <= 64);
        let s: &str = unsafe { core::str::from_utf8_unchecked(&bytes[..len]) };
        kani::cover!(len == 64);
        match NormalizedString::new(s) {
            Err(NormalizedStringError::StringTooLong) => {}
            _ => assert!(false, "C13 more than 16 bytes is a length error"),
        }
    }

    /// the &str constructors agree with `new` (all ASCII strings of up to 20 bytes)
    #[kani::proof]
    #[kani::unwind(22)]
    fn c13_constructors_str() {
        use core::convert::TryFrom;
        let bytes: [u8; 20] = kani::any();
        let len: usize = kani::any();
        kani::assume(len <= 20);
        let mut i = 0;
        while i < 20 { kani::assume(bytes[i] < 0x80); i += 1; }
        let s: &str = unsafe { core::str::from_utf8_unchecked(&bytes[..len]) };
        let a = NormalizedString::new(s);
        let b = NormalizedString::from_str(s);
        let c = NormalizedString::try_from(s);
        fn same(x: &Result<NormalizedString, NormalizedStringError>, y: &Result<NormalizedString, NormalizedStringError>) -> bool {
            match (x, y) {
                (Ok(p), Ok(q)) => verif_parts(p) == verif_parts(q),
                (Err(NormalizedStringError::StringTooLong), Err(NormalizedStringError::StringTooLong)) => true,
                (Err(NormalizedStringError::CharacterNotAllowed(p)), Err(NormalizedStringError::CharacterNotAllowed(q))) => p == q,
                _ => false,
            }
        }
        kani::cover!(a.is_ok());
        assert!(same(&a, &b), "C13 from_str agrees with new");
        assert!(same(&a, &c), "C13 TryFrom<&str> agrees with new");
    }

    /// the String constructors agree with `new` (BOUNDED: all ASCII strings of up to 6 bytes - heap allocation makes longer ones expensive)
    #[kani::proof]
    #[kani::unwind(18)]
    fn c13_constructors_string() {
        use core::convert::TryFrom;
        let bytes: [u8; 6] = kani::any();
        let len: usize = kani::any();
        kani::assume(len <= 6);
        let mut i = 0;
        while i < 6 { kani::assume(bytes[i] < 0x80); i += 1; }
        let s: &str = unsafe { core::str::from_utf8_unchecked(&bytes[..len]) };
        let a = NormalizedString::new(s);
        let b = NormalizedString::from_string(String::from(s));
        let c = NormalizedString::try_from(String::from(s));
        fn same(x: &Result<NormalizedString, NormalizedStringError>, y: &Result<NormalizedString, NormalizedStringError>) -> bool {
            match (x, y) {
                (Ok(p), Ok(q)) => verif_parts(p) == verif_parts(q),
                (Err(NormalizedStringError::StringTooLong), Err(NormalizedStringError::StringTooLong)) => true,
                (Err(NormalizedStringError::CharacterNotAllowed(p)), Err(NormalizedStringError::CharacterNotAllowed(q))) => p == q,
                _ => false,
            }
        }
        kani::cover!(a.is_ok());
        assert!(same(&a, &b), "C13 from_string agrees with new");
        assert!(same(&a, &c), "C13 TryFrom<String> agrees with new");
    }

    /// the String constructors refuse every string of 17..=24 bytes as too long (complete for these lengths, any byte values that form ASCII text)
    #[kani::proof]
    #[kani::unwind(26)]
    fn c13_string_too_long() {
        use core::convert::TryFrom;
        let bytes: [u8; 24] = kani::any();
        let len: usize = kani::any();
        kani::assume(len >= 17 && len <= 24);
        let mut i = 0;
        while i < 24 { kani::assume(bytes[i] < 0x80); i += 1; }
        let s: &str = unsafe { core::str::from_utf8_unchecked(&bytes[..len]) };
        let b = NormalizedString::from_string(String::from(s));
        let c = NormalizedString::try_from(String::from(s));
        kani::cover!(len == 17);
        kani::cover!(len == 24);
        assert!(matches!(b, Err(NormalizedStringError::StringTooLong)), "C13 from_string refuses strings longer than 16 bytes");
        assert!(matches!(c, Err(NormalizedStringError::StringTooLong)), "C13 TryFrom<String> refuses strings longer than 16 bytes");
    }
}

