// Appended (add-only) to src/bigint.rs of the scratch copy.
#[cfg(kani)]
pub mod verif_kani {
    use super::*;
    /// C01/C03 (complete over all 32-byte values): a value read from 32 little-endian bytes is written back, zero-padded at the
    /// high end, as exactly those bytes - every count of high-order and low-order zero bytes included.
    #[kani::proof]
    #[kani::unwind(36)]
    pub fn c01_padded_roundtrip() {
        let b: [u8; 32] = kani::any();
        let v = Integer::from_bytes_le(&b);
        let out = v.to_padded_32_byte_array_le();
        let mut ok = true;
        let mut i = 0;
        while i < 32 { ok &= out[i] == b[i]; i += 1; }
        kani::cover!(b[31] == 0 && b[30] == 0 && b[0] != 0);
        assert!(ok, "C01 to_padded_32_byte_array_le(from_bytes_le(b)) == b");
    }
}
