// Appended (add-only) to src/bigint.rs of the scratch copy.
// The big-integer wrappers sit on num-bigint (heap vectors, limb loops): beyond CBMC in the time available (measured: the 32-byte
// round trip did not finish in 40 min). When one of them leaves the fragment Verus reads, the only remaining check is this
// BOUNDED native search (labelled bounded, never counted as proved); it also serves as the replay driver for counterexamples.
#[cfg(all(test, gtker_wow_srp_verif))]
mod verif_search {
    use super::*;

    struct Rng(u64);
    impl Rng { fn next(&mut self) -> u64 { self.0 ^= self.0 << 13; self.0 ^= self.0 >> 7; self.0 ^= self.0 << 17; self.0 } }
    fn seed() -> u64 { std::env::var("VERIF_SEED").ok().and_then(|s| s.parse::<u64>().ok()).unwrap_or(0) ^ 0x9E3779B97F4A7C15 }
    fn hex(b: &[u8]) -> String { b.iter().map(|x| format!("{:02x}", x)).collect() }
    fn input() -> Option<Vec<u8>> {
        let h = std::env::var("VERIF_REPLAY_INPUT").unwrap_or_default();
        if h.is_empty() { None } else { Some((0..h.len() / 2).map(|i| u8::from_str_radix(&h[2 * i..2 * i + 2], 16).unwrap()).collect()) }
    }
    /// structured 32-byte values: every combination of `lo` low-order and `hi` high-order zero bytes around a random middle,
    /// plus 0, 1, powers of 256 minus/plus one, N, N-1
    fn shapes(rng: &mut Rng) -> Vec<[u8; 32]> {
        let mut v = Vec::new();
        for lo in 0..=32usize { for hi in 0..=(32 - lo) {
            let mut b = [0u8; 32];
            for i in lo..(32 - hi) { b[i] = (rng.next() % 255 + 1) as u8; }
            v.push(b);
        } }
        for k in 0..32usize { let mut b = [0u8; 32]; b[k] = 1; v.push(b); let mut c = [0xffu8; 32]; for i in k..32 { c[i] = 0; } v.push(c); }
        v.push(crate::LARGE_SAFE_PRIME_LITTLE_ENDIAN);
        let mut n1 = crate::LARGE_SAFE_PRIME_LITTLE_ENDIAN; n1[0] -= 1; v.push(n1);
        v
    }
    fn check_padded(b: &[u8; 32]) -> bool { Integer::from_bytes_le(b).to_padded_32_byte_array_le() == *b }

    /// contract of to_padded_32_byte_array_le / to_bytes_le / from_bytes_le: writing back a value read from 32 LE bytes gives those bytes
    #[test]
    fn verif_search_c01_padded_roundtrip() {
        if let Some(b) = input() {
            let mut k = [0u8; 32]; k.copy_from_slice(&b[..32]);
            let got = Integer::from_bytes_le(&k).to_padded_32_byte_array_le();
            println!("REPLAY c01_padded_roundtrip input={} expected={} actual={}", hex(&k), hex(&k), hex(&got));
            if got != k { println!("REPLAY-FAIL c01_padded_roundtrip"); }
            return;
        }
        let mut rng = Rng(seed());
        let mut n = 0u64;
        for b in shapes(&mut rng) { n += 1; if !check_padded(&b) { println!("REPLAY-FAIL c01_padded_roundtrip input={}", hex(&b)); return; } }
        for _ in 0..20000 { let mut b = [0u8; 32]; for x in b.iter_mut() { *x = rng.next() as u8; } n += 1;
            if !check_padded(&b) { println!("REPLAY-FAIL c01_padded_roundtrip input={}", hex(&b)); return; } }
        println!("REPLAY-STATS c01_padded_roundtrip inputs={} all-ok", n);
    }

    /// contract of modpow / mul / add / sub / rem on small operands against u128 arithmetic (incl. a negative base)
    #[test]
    fn verif_search_c01_arith() {
        let mut rng = Rng(seed());
        let mut n = 0u64;
        for _ in 0..20000 {
            let a = (rng.next() % 65521) as u128; let b = (rng.next() % 65521) as u128; let e = (rng.next() % 64) as u32; let m = (rng.next() % 65520 + 1) as u128;
            let ia = Integer::from_bytes_le(&a.to_le_bytes()); let ib = Integer::from_bytes_le(&b.to_le_bytes());
            let im = Integer::from_bytes_le(&m.to_le_bytes()); let ie = Integer::from_bytes_le(&(e as u128).to_le_bytes());
            let mut want = 1u128; for _ in 0..e { want = want * a % m; }
            let got = Integer::from_bytes_le(&a.to_le_bytes()).modpow(&ie, &im).to_padded_32_byte_array_le();
            let mut w = [0u8; 32]; w[..16].copy_from_slice(&want.to_le_bytes());
            n += 1;
            if got != w { println!("REPLAY-FAIL c01_arith modpow a={} e={} m={}", a, e, m); return; }
            // (a - b*3) mod m via a negative base to the power 1
            let diff = Integer::from_bytes_le(&a.to_le_bytes()) - Integer::from_bytes_le(&(3 * b).to_le_bytes());
            let one = Integer::from(1);
            let got2 = diff.modpow(&one, &im).to_padded_32_byte_array_le();
            let want2 = ((a as i128 - 3 * b as i128).rem_euclid(m as i128)) as u128;
            let mut w2 = [0u8; 32]; w2[..16].copy_from_slice(&want2.to_le_bytes());
            if got2 != w2 { println!("REPLAY-FAIL c01_arith negative-base a={} b={} m={}", a, b, m); return; }
            let prod = (ia * ib + Integer::from_bytes_le(&m.to_le_bytes())) % Integer::from_bytes_le(&65521u128.to_le_bytes());
            let want3 = (a * b + m) % 65521;
            let mut w3 = [0u8; 32]; w3[..16].copy_from_slice(&want3.to_le_bytes());
            if prod.to_padded_32_byte_array_le() != w3 { println!("REPLAY-FAIL c01_arith mul-add-rem a={} b={} m={}", a, b, m); return; }
            let mut ml = [0u8; 32]; ml[..16].copy_from_slice(&m.to_le_bytes());
            let lsp = LargeSafePrime::from_le_bytes(ml);
            let va = Integer::from_bytes_le(&a.to_le_bytes());
            if va.is_zero() != (a == 0) { println!("REPLAY-FAIL c01_arith is_zero a={}", a); return; }
            if va.mod_large_safe_prime_is_zero(&lsp) != (a % m == 0) { println!("REPLAY-FAIL c01_arith mod_large_safe_prime_is_zero a={} modulus={}", a, m); return; }
            let vm = Integer::from_bytes_le(&(m * (1 + b % 7)).to_le_bytes());
            if !vm.mod_large_safe_prime_is_zero(&lsp) { println!("REPLAY-FAIL c01_arith mod_large_safe_prime_is_zero multiple={} modulus={}", m * (1 + b % 7), m); return; }
        }
        println!("REPLAY-STATS c01_arith inputs={} all-ok", n);
    }
}
