// Appended (add-only) to src/vanilla_header/mod.rs of the scratch copy.
// Kani contract harnesses for the Vanilla cipher: independent second discharge of the Verus contracts and the fallback
// when a function leaves the fragment Verus reads. Reference = the recurrence of C07 written out directly.
#[cfg(kani)]
pub mod verif_kani {
    use super::*;

    fn ref_enc(key: &[u8; 40], idx: u8, prev: u8, data: &mut [u8; 8], len: usize) -> (u8, u8) {
        let (mut i, mut p) = (idx, prev);
        let mut n = 0;
        while n < 8 {
            if n < len {
                let c = (((data[n] ^ key[i as usize]) as u16 + p as u16) % 256) as u8;
                data[n] = c; p = c; i = ((i as u16 + 1) % 40) as u8;
            }
            n += 1;
        }
        (i, p)
    }

    /// C07 (bounded: calls of 0..=8 bytes; any key, any state): encrypt follows the recurrence, decrypt inverts it,
    /// both leave (index, previous byte) as the recurrence says; a zero-length call changes nothing.
    #[kani::proof]
    #[kani::unwind(42)]
    pub fn c07_encrypt_decrypt_8() {
        let key: [u8; 40] = kani::any();
        let idx: u8 = kani::any(); kani::assume(idx < 40);
        let prev: u8 = kani::any();
        let plain: [u8; 8] = kani::any();
        let len: usize = kani::any(); kani::assume(len <= 8);
        let mut e = EncrypterHalf { session_key: key, index: idx, previous_value: prev };
        let mut d = DecrypterHalf { session_key: key, index: idx, previous_value: prev };
        let mut buf = plain;
        e.encrypt(&mut buf[..len]);
        let mut want = plain;
        let (wi, wp) = ref_enc(&key, idx, prev, &mut want, len);
        let mut ok = e.index == wi && e.previous_value == wp && e.session_key == key;
        let mut n = 0;
        while n < 8 { ok &= buf[n] == want[n]; n += 1; }
        d.decrypt(&mut buf[..len]);
        n = 0;
        while n < 8 { ok &= buf[n] == plain[n]; n += 1; }
        ok &= d.index == wi && d.previous_value == wp && d.session_key == key;
        if len == 0 { ok &= e.index == idx && e.previous_value == prev && d.index == idx && d.previous_value == prev; }
        kani::cover!(len == 8);
        kani::cover!(len == 0);
        assert!(ok, "C07 vanilla encrypt/decrypt follow the recurrence from any state (calls of up to 8 bytes)");
    }

    /// C07/C11 (complete): typed header helpers = raw operation on big-endian size | little-endian opcode; the peer decodes them
    #[kani::proof]
    #[kani::unwind(10)]
    pub fn c11_vanilla_headers() {
        let key: [u8; 40] = kani::any();
        let idx: u8 = kani::any(); kani::assume(idx < 40);
        let prev: u8 = kani::any();
        let size: u16 = kani::any();
        let op16: u16 = kani::any();
        let op32: u32 = kani::any();
        let client: bool = kani::any();
        let mut c = HeaderCrypto { decrypt: DecrypterHalf { session_key: key, index: idx, previous_value: prev },
                                   encrypt: EncrypterHalf { session_key: key, index: idx, previous_value: prev } };
        let mut raw = [0u8; 8];
        let mut ok = true;
        if client {
            let h = c.encrypt_client_header(size, op32);
            raw[0] = (size >> 8) as u8; raw[1] = size as u8;
            raw[2] = op32 as u8; raw[3] = (op32 >> 8) as u8; raw[4] = (op32 >> 16) as u8; raw[5] = (op32 >> 24) as u8;
            let (wi, wp) = ref_enc(&key, idx, prev, &mut raw, 6);
            let mut n = 0;
            while n < 6 { ok &= h[n] == raw[n]; n += 1; }
            ok &= c.encrypt.index == wi && c.encrypt.previous_value == wp;
            ok &= c.decrypt.index == idx && c.decrypt.previous_value == prev;   // C12 frame
            let back = c.decrypt_client_header(h);
            ok &= back.size == size && back.opcode == op32;
            ok &= c.decrypt.index == wi && c.decrypt.previous_value == wp;
        } else {
            let h = c.encrypt_server_header(size, op16);
            raw[0] = (size >> 8) as u8; raw[1] = size as u8; raw[2] = op16 as u8; raw[3] = (op16 >> 8) as u8;
            let (wi, wp) = ref_enc(&key, idx, prev, &mut raw, 4);
            let mut n = 0;
            while n < 4 { ok &= h[n] == raw[n]; n += 1; }
            ok &= c.encrypt.index == wi && c.encrypt.previous_value == wp;
            ok &= c.decrypt.index == idx && c.decrypt.previous_value == prev;
            let back = c.decrypt_server_header(h);
            ok &= back.size == size && back.opcode == op16;
            ok &= c.decrypt.index == wi && c.decrypt.previous_value == wp;
        }
        kani::cover!(client);
        kani::cover!(!client);
        assert!(ok, "C11 vanilla typed header helpers equal the raw operation on the wire layout and round-trip");
    }

    /// C12 (complete, all pairs of 40-byte keys): is_pair_of is whole-key equality; unsplit is Ok exactly then and returns the two halves unchanged
    #[kani::proof]
    #[kani::unwind(42)]
    pub fn c12_pair_unsplit() {
        let k1: [u8; 40] = kani::any();
        let k2: [u8; 40] = kani::any();
        let e = EncrypterHalf { session_key: k1, index: kani::any(), previous_value: kani::any() };
        let d = DecrypterHalf { session_key: k2, index: kani::any(), previous_value: kani::any() };
        let mut same = true;
        let mut i = 0;
        while i < 40 { if k1[i] != k2[i] { same = false; } i += 1; }
        let mut ok = e.is_pair_of(&d) == same && d.is_pair_of(&e) == same;
        let (ei, ep, di, dp) = (e.index, e.previous_value, d.index, d.previous_value);
        match e.unsplit(d) {
            Ok(h) => { ok &= same && h.encrypt.session_key == k1 && h.decrypt.session_key == k2 && h.encrypt.index == ei
                              && h.encrypt.previous_value == ep && h.decrypt.index == di && h.decrypt.previous_value == dp; }
            Err(_) => { ok &= !same; }
        }
        kani::cover!(same);
        kani::cover!(!same);
        assert!(ok, "C12 is_pair_of / unsplit compare all 40 key bytes");
    }
}
