// Appended (add-only) to src/vanilla_header/mod.rs of the scratch copy.
// Kani contract harnesses for the Vanilla cipher: independent second discharge of the Verus contracts and the fallback
// when a function leaves the fragment Verus reads. Reference = the recurrence of C07 written out directly.
#[cfg(kani)]
pub mod verif_kani {
    use super::*;

    fn ref_enc(key: &[u8; 40], idx: u8, prev: u8, data: &mut [u8; 8], len: usize) -> (u8, u8) {
        let (mut i, mut p) = (idx, prev);
        let mut n = 0;
        while n < 8 {
            if n < len {
                let c = (((data[n] ^ key[i as usize]) as u16 + p as u16) % 256) as u8;
                data[n] = c; p = c; i = ((i as u16 + 1) % 40) as u8;
            }
            n += 1;
        }
        (i, p)
    }

    /// C07 (bounded: calls of 0..=8 bytes; any key, any state): encrypt follows the recurrence, decrypt inverts it,
    /// both leave (index, previous byte) as the recurrence says; a zero-length call changes nothing.
    #[kani::proof]
    #[kani::unwind(42)]
    pub fn c07_encrypt_decrypt_8() {
        let key: [u8; 40] = kani::any();
        let idx: u8 = kani::any(); kani::assume(idx < 40);
        let prev: u8 = kani::any();
        let plain: [u8; 8] = kani::any();
        let len: usize = kani::any(); kani::assume(len <= 8);
        let mut e = EncrypterHalf { session_key: key, index: idx, previous_value: prev };
        let mut d = DecrypterHalf { session_key: key, index: idx, previous_value: prev };
        let mut buf = plain;
        e.encrypt(&mut buf[..len]);
        let mut want = plain;
        let (wi, wp) = ref_enc(&key, idx, prev, &mut want, len);
        let mut ok = e.index == wi && e.previous_value == wp && e.session_key == key;
        let mut n = 0;
        while n < 8 { ok &= buf[n] == want[n]; n += 1; }
        d.decrypt(&mut buf[..len]);
        n = 0;
        while n < 8 { ok &= buf[n] == plain[n]; n += 1; }
        ok &= d.index == wi && d.previous_value == wp && d.session_key == key;
        if len == 0 { ok &= e.index == idx && e.previous_value == prev && d.index == idx && d.previous_value == prev; }
        kani::cover!(len == 8);
        kani::cover!(len == 0);
        assert!(ok, "C07 vanilla encrypt/decrypt follow the recurrence from any state (calls of up to 8 bytes)");
    }

    /// C07/C11 (complete): typed header helpers = raw operation on big-endian size | little-endian opcode; the peer decodes them
    #[kani::proof]
    #[kani::unwind(10)]
    pub fn c11_vanilla_headers() {
        let key: [u8; 40] = kani::any();
        let idx: u8 = kani::any(); kani::assume(idx < 40);
        let prev: u8 = kani::any();
        let size: u16 = kani::any();
        let op16: u16 = kani::any();
        let op32: u32 = kani::any();
        let client: bool = kani::any();
        let mut c = HeaderCrypto { decrypt: DecrypterHalf { session_key: key, index: idx, previous_value: prev },
                                   encrypt: EncrypterHalf { session_key: key, index: idx, previous_value: prev } };
        let mut raw = [0u8; 8];
        let mut ok = true;
        if client {
            let h = c.encrypt_client_header(size, op32);
            raw[0] = (size >> 8) as u8; raw[1] = size as u8;
            raw[2] = op32 as u8; raw[3] = (op32 >> 8) as u8; raw[4] = (op32 >> 16) as u8; raw[5] = (op32 >> 24) as u8;
            let (wi, wp) = ref_enc(&key, idx, prev, &mut raw, 6);
            let mut n = 0;
            while n < 6 { ok &= h[n] == raw[n]; n += 1; }
            ok &= c.encrypt.index == wi && c.encrypt.previous_value == wp;
            ok &= c.decrypt.index == idx && c.decrypt.previous_value == prev;   // C12 frame
            let back = c.decrypt_client_header(h);
            ok &= back.size == size && back.opcode == op32;
            ok &= c.decrypt.index == wi && c.decrypt.previous_value == wp;
        } else {
            let h = c.encrypt_server_header(size, op16);
            raw[0] = (size >> 8) as u8; raw[1] = size as u8; raw[2] = op16 as u8; raw[3] = (op16 >> 8) as u8;
            let (wi, wp) = ref_enc(&key, idx, prev, &mut raw, 4);
            let mut n = 0;
            while n < 4 { ok &= h[n] == raw[n]; n += 1; }
            ok &= c.encrypt.index == wi && c.encrypt.previous_value == wp;
            ok &= c.decrypt.index == idx && c.decrypt.previous_value == prev;
            let back = c.decrypt_server_header(h);
            ok &= back.size == size && back.opcode == op16;
            ok &= c.decrypt.index == wi && c.decrypt.previous_value == wp;
        }
        kani::cover!(client);
        kani::cover!(!client);
        assert!(ok, "C11 vanilla typed header helpers equal the raw operation on the wire layout and round-trip");
    }

    /// C12 (complete, all pairs of 40-byte keys): is_pair_of is whole-key equality; unsplit is Ok exactly then and returns the two halves unchanged
    #[kani::proof]
    #[kani::unwind(42)]
    pub fn c12_pair_unsplit() {
        let k1: [u8; 40] = kani::any();
        let k2: [u8; 40] = kani::any();
        let e = EncrypterHalf { session_key: k1, index: kani::any(), previous_value: kani::any() };
        let d = DecrypterHalf { session_key: k2, index: kani::any(), previous_value: kani::any() };
        let mut same = true;
        let mut i = 0;
        while i < 40 { if k1[i] != k2[i] { same = false; } i += 1; }
        let mut ok = e.is_pair_of(&d) == same && d.is_pair_of(&e) == same;
        let (ei, ep, di, dp) = (e.index, e.previous_value, d.index, d.previous_value);
        match e.unsplit(d) {
            Ok(h) => { ok &= same && h.encrypt.session_key == k1 && h.decrypt.session_key == k2 && h.encrypt.index == ei
                              && h.encrypt.previous_value == ep && h.decrypt.index == di && h.decrypt.previous_value == dp; }
            Err(_) => { ok &= !same; }
        }
        kani::cover!(same);
        kani::cover!(!same);
        assert!(ok, "C12 is_pair_of / unsplit compare all 40 key bytes");
    }
}

// ---- C06: world-login glue of this module (proof function and key setup replaced by recording stubs = their proved contracts)
#[cfg(kani)]
pub mod verif_kani_c06 {
    use super::*;
    #[allow(unused_imports)] use crate::key::{Proof, SessionKey}; #[allow(unused_imports)] use crate::normalized_string::NormalizedString; #[allow(unused_imports)] use crate::error::MatchProofsError;
    use core::sync::atomic::{AtomicU8, AtomicU32, AtomicUsize, Ordering};
    use crate::normalized_string::verif_kani::verif_make;
    static P: [AtomicU8; 20] = [const { AtomicU8::new(0) }; 20];
    static SS: AtomicU32 = AtomicU32::new(0);
    static CS: AtomicU32 = AtomicU32::new(0);
    static KEY_OK: AtomicUsize = AtomicUsize::new(0);
    static K: [AtomicU8; 40] = [const { AtomicU8::new(0) }; 40];
    static NEW_CALLS: AtomicUsize = AtomicUsize::new(0);
    fn proof_stub(_u: &NormalizedString, k: &SessionKey, server_seed: u32, client_seed: u32) -> Proof {
        SS.store(server_seed, Ordering::Relaxed); CS.store(client_seed, Ordering::Relaxed);
        let mut same = true; let mut i = 0; while i < 40 { same &= k.as_le_bytes()[i] == K[i].load(Ordering::Relaxed); i += 1; }
        KEY_OK.store(same as usize, Ordering::Relaxed);
        let mut p = [0u8; 20]; i = 0; while i < 20 { p[i] = P[i].load(Ordering::Relaxed); i += 1; } Proof::from_le_bytes(p)
    }
    fn new_stub(k: [u8; 40]) -> HeaderCrypto {
        let mut same = true; let mut i = 0; while i < 40 { same &= k[i] == K[i].load(Ordering::Relaxed); i += 1; }
        NEW_CALLS.store(if same { 1 } else { 2 }, Ordering::Relaxed);
        HeaderCrypto { decrypt: DecrypterHalf { session_key: k, index: 0, previous_value: 0 }, encrypt: EncrypterHalf { session_key: k, index: 0, previous_value: 0 } }
    }
    fn body(with_covers: bool) -> bool {
        let name = verif_make(kani::any(), kani::any());
        let key: [u8; 40] = kani::any(); let computed: [u8; 20] = kani::any(); let presented: [u8; 20] = kani::any();
        let own: u32 = kani::any(); let peer: u32 = kani::any();
        let mut i = 0; while i < 20 { P[i].store(computed[i], Ordering::Relaxed); i += 1; }
        i = 0; while i < 40 { K[i].store(key[i], Ordering::Relaxed); i += 1; }
        let seed = ProofSeed { seed: own };
        let mut ok = seed.seed() == own;
        let server: bool = kani::any();
        if server {
            let mut same = true; i = 0; while i < 20 { if presented[i] != computed[i] { same = false; } i += 1; }
            match seed.into_server_header_crypto(&name, key, presented, peer) {
                Ok(_) => { ok &= same && NEW_CALLS.load(Ordering::Relaxed) == 1; }
                Err(e) => { ok &= !same && e.client_proof == presented && e.server_proof == computed && NEW_CALLS.load(Ordering::Relaxed) == 0; }
            }
            // the server passes (own seed, client seed)
            ok &= SS.load(Ordering::Relaxed) == own && CS.load(Ordering::Relaxed) == peer && KEY_OK.load(Ordering::Relaxed) == 1;
            if with_covers { kani::cover!(same); kani::cover!(!same); }
        } else {
            let (p, _c) = seed.into_client_header_crypto(&name, key, peer);
            ok &= p == computed && NEW_CALLS.load(Ordering::Relaxed) == 1;
            // the client passes (server seed, own seed)
            ok &= SS.load(Ordering::Relaxed) == peer && CS.load(Ordering::Relaxed) == own && KEY_OK.load(Ordering::Relaxed) == 1;
        }
        ok
    }
    /// C06 (complete over proofs, keys, seeds): Ok iff whole 20-byte equality; Err carries both proofs and no crypto is built;
    /// seeds are passed in the right roles; seed() returns the field; the crypto object is keyed with the presented session key.
    #[kani::proof]
    #[kani::unwind(42)]
    #[kani::stub(crate::vanilla_header::internal::calculate_world_server_proof, proof_stub)]
    #[kani::stub(crate::vanilla_header::HeaderCrypto::new, new_stub)]
    pub fn c06_vanilla_world_login() { assert!(body(true), "C06 world-login: Ok iff whole-proof equality, Err carries both proofs, seeds in the right roles"); }
    #[kani::proof]
    #[kani::unwind(42)]
    #[kani::stub(crate::vanilla_header::internal::calculate_world_server_proof, proof_stub)]
    #[kani::stub(crate::vanilla_header::HeaderCrypto::new, new_stub)]
    pub fn c06_vanilla_world_login_cex() { let ok = body(false); kani::cover!(!ok, "counterexample"); }
}

// ---- C07/C08: long calls - position bookkeeping across calls much longer than the key and across the 8-bit boundary
#[cfg(kani)]
pub mod verif_kani_long {
    use super::*;
    const N: usize = 300;
    /// (bounded: one call of 0..=300 bytes from any position): the position counter after the call is (position + length) mod L
    /// on both halves - in particular for position + length >= 256
    #[kani::proof]
    #[kani::unwind(302)]
    pub fn c07_long_call_300() {
        let key: [u8; 40] = kani::any();
        let idx: u8 = kani::any(); kani::assume(idx < 40);
        let len: usize = kani::any(); kani::assume(len <= N);
        let mut e = EncrypterHalf { session_key: key, index: idx, previous_value: 0 };
        let mut d = DecrypterHalf { session_key: key, index: idx, previous_value: 0 };
        let mut buf = [0u8; N];
        e.encrypt(&mut buf[..len]);
        d.decrypt(&mut buf[..len]);
        let want = ((idx as usize + len) % 40) as u8;
        kani::cover!(len == N);
        assert!(e.index == want && d.index == want, "C07/C08 long call: position counter = (position + length) mod key length, also beyond 255 bytes");
    }
}

// Bounded native search (labelled bounded; counterexample finder / stand-in when a cipher function leaves the verifiable fragment):
// random keys and states, calls of many lengths including 0, 255..257, 300, 512 +- 1 and 1000 bytes, split into random chunkings.
#[cfg(all(test, gtker_wow_srp_verif))]
mod verif_search {
    use super::*;
    
    struct Rng(u64);
    impl Rng { fn next(&mut self) -> u64 { self.0 ^= self.0 << 13; self.0 ^= self.0 >> 7; self.0 ^= self.0 << 17; self.0 } }
    const KL: usize = 40;
    fn reference(key: &[u8; KL], idx: u8, prev: u8, plain: &[u8]) -> (Vec<u8>, u8, u8) {
        let (mut i, mut p) = (idx as usize, prev);
        let mut out = Vec::with_capacity(plain.len());
        for x in plain { let c = (x ^ key[i]).wrapping_add(p); out.push(c); p = c; i = (i + 1) % KL; }
        (out, i as u8, p)
    }
    #[test]
    fn verif_search_c07_stream() {
        let seed = std::env::var("VERIF_SEED").ok().and_then(|s| s.parse::<u64>().ok()).unwrap_or(0) ^ 0x9E3779B97F4A7C15;
        let mut rng = Rng(seed);
        let lens = [0usize, 1, 2, 3, 4, 5, 6, 7, 19, 20, 21, 39, 40, 41, 64, 100, 235, 236, 254, 255, 256, 257, 300, 511, 512, 513, 1000];
        let mut n = 0u64;
        for round in 0..40 { for &len in lens.iter() {
            let mut key = [0u8; KL]; for k in key.iter_mut() { *k = rng.next() as u8; }
            // structured keys first: all-zero, all-ones, zero bytes at either end
            match round { 0 => key = [0u8; KL], 1 => key = [0xffu8; KL], 2 => { for z in 0..8 { key[KL - 1 - z] = 0; } }, 3 => { for z in 0..8 { key[z] = 0; } }, _ => {} }
            let idx = (rng.next() % KL as u64) as u8; let prev = rng.next() as u8;
            let plain: Vec<u8> = (0..len).map(|_| match round { 4 => 0u8, 5 => 0xff, _ => rng.next() as u8 }).collect();
            let (want, wi, wp) = reference(&key, idx, prev, &plain);
            // sender: random chunking (with empty calls); receiver: a different random chunking
            let mut e = EncrypterHalf { session_key: key, index: idx, previous_value: prev };
            let mut d = DecrypterHalf { session_key: key, index: idx, previous_value: prev };
            let mut wire = plain.clone();
            let mut pos = 0;
            while pos < len || (round % 3 == 0 && pos == len && rng.next() % 4 == 0) {
                let c = if round % 2 == 0 { len - pos } else { (rng.next() as usize % (len - pos + 1)).min(len - pos) };
                e.encrypt(&mut wire[pos..pos + c]); pos += c;
                if c == 0 && pos == len { break; }
            }
            n += 1;
            if wire != want || e.index != wi || e.previous_value != wp {
                println!("REPLAY-FAIL c07_stream encrypt len={} index={} prev={} round={} (ciphertext or state differs from the recurrence)", len, idx, prev, round); return;
            }
            let mut back = wire.clone();
            let mut pos = 0;
            while pos < len { let c = 1 + (rng.next() as usize % (len - pos)); d.decrypt(&mut back[pos..pos + c]); pos += c; d.decrypt(&mut back[pos..pos]); }
            if back != plain || d.index != wi || d.previous_value != wp {
                println!("REPLAY-FAIL c07_stream decrypt len={} index={} prev={} round={} (plaintext not recovered or state differs)", len, idx, prev, round); return;
            }
        } }
        println!("REPLAY-STATS c07_stream inputs={} all-ok", n);
    }

    // ---- C11 / C12: every entry point (combined object, halves, typed helpers, Read/Write wrappers, clone, split, unsplit) against
    // the raw recurrence applied to the header's wire layout.  Reference state is kept outside the library.
    struct RefDir { key: [u8; KL], i: usize, p: u8 }
    impl RefDir {
        fn enc(&mut self, plain: &[u8]) -> Vec<u8> { let mut o = Vec::new(); for x in plain { let c = (x ^ self.key[self.i]).wrapping_add(self.p); o.push(c); self.p = c; self.i = (self.i + 1) % KL; } o }
        fn dec(&mut self, wire: &[u8]) -> Vec<u8> { let mut o = Vec::new(); for c in wire { o.push(c.wrapping_sub(self.p) ^ self.key[self.i]); self.p = *c; self.i = (self.i + 1) % KL; } o }
    }
    enum Obj { Whole(HeaderCrypto), Halves(EncrypterHalf, DecrypterHalf) }
    impl Obj {
        fn e(&mut self) -> &mut EncrypterHalf { match self { Obj::Whole(h) => h.encrypter(), Obj::Halves(e, _) => e } }
        fn d(&mut self) -> &mut DecrypterHalf { match self { Obj::Whole(h) => h.decrypter(), Obj::Halves(_, d) => d } }
    }
    /// delivers `data` in random fragments, sprinkles Interrupted, fails with `kind` once `fail_at` bytes have been delivered
    struct FragReader<'a> { data: &'a [u8], pos: usize, fail_at: Option<usize>, kind: std::io::ErrorKind, rng: u64 }
    impl<'a> std::io::Read for FragReader<'a> {
        fn read(&mut self, buf: &mut [u8]) -> std::io::Result<usize> {
            self.rng ^= self.rng << 13; self.rng ^= self.rng >> 7; self.rng ^= self.rng << 17;
            if self.rng % 4 == 0 { return Err(std::io::Error::from(std::io::ErrorKind::Interrupted)); }
            if let Some(f) = self.fail_at { if self.pos >= f { return Err(std::io::Error::from(self.kind)); } }
            let limit = self.fail_at.unwrap_or(self.data.len()).min(self.data.len());
            let avail = limit - self.pos;
            if avail == 0 || buf.is_empty() { return Ok(0); }
            let n = 1 + (self.rng as usize % avail.min(buf.len()));
            buf[..n].copy_from_slice(&self.data[self.pos..self.pos + n]); self.pos += n; Ok(n)
        }
    }
    /// accepts bytes in random fragments, sprinkles Interrupted, fails with `kind` once `fail_at` bytes have been accepted
    struct FragWriter { got: Vec<u8>, fail_at: Option<usize>, kind: std::io::ErrorKind, rng: u64 }
    impl std::io::Write for FragWriter {
        fn write(&mut self, buf: &[u8]) -> std::io::Result<usize> {
            self.rng ^= self.rng << 13; self.rng ^= self.rng >> 7; self.rng ^= self.rng << 17;
            if self.rng % 4 == 0 { return Err(std::io::Error::from(std::io::ErrorKind::Interrupted)); }
            if let Some(f) = self.fail_at { if self.got.len() >= f { return Err(std::io::Error::from(self.kind)); } }
            if buf.is_empty() { return Ok(0); }
            let room = self.fail_at.map(|f| f - self.got.len()).unwrap_or(buf.len()).min(buf.len());
            let n = 1 + (self.rng as usize % room);
            self.got.extend_from_slice(&buf[..n]); Ok(n)
        }
        fn flush(&mut self) -> std::io::Result<()> { Ok(()) }
    }
    const KINDS: [std::io::ErrorKind; 5] = [std::io::ErrorKind::UnexpectedEof, std::io::ErrorKind::TimedOut, std::io::ErrorKind::ConnectionReset, std::io::ErrorKind::BrokenPipe, std::io::ErrorKind::Other];
    #[test]
    fn verif_search_c11_vanilla_entry_points() {
        let seed = std::env::var("VERIF_SEED").ok().and_then(|s| s.parse::<u64>().ok()).unwrap_or(0) ^ 0x9E3779B97F4A7C15;
        let mut rng = Rng(seed);
        let mut n = 0u64;
        let sizes = [0u16, 1, 4, 0xff, 0x100, 0x7fff, 0x8000, 0xfffe, 0xffff, 0x1234];
        let opcodes = [0u32, 1, 0xff, 0x100, 0xffff, 0x1_0000, 0x00ff_ffff, 0x8000_0000, 0xffff_ffff, 0x1234_5678];
        macro_rules! fail { ($($a:tt)*) => { { println!("REPLAY-FAIL c11_vanilla_entry_points {}", format!($($a)*)); return; } } }
        for session in 0..600u32 {
            let mut sk = [0u8; 40]; for x in sk.iter_mut() { *x = rng.next() as u8; }
            match session { 0 => sk = [0u8; 40], 1 => sk = [0xff; 40], 2 => { for z in 0..8 { sk[39 - z] = 0; } }, 3 => { for z in 0..8 { sk[z] = 0; } }, _ => {} }
            let dk: [u8; KL] = sk;
            let mut re = RefDir { key: dk, i: 0, p: 0 };
            let mut rd = RefDir { key: dk, i: 0, p: 0 };
            let mut obj = Obj::Whole(HeaderCrypto::new(sk));
            for step in 0..60u32 {
                n += 1;
                let op = rng.next() % 16;
                let size = sizes[(rng.next() % sizes.len() as u64) as usize];
                let opcode = if rng.next() % 3 == 0 { rng.next() as u32 } else { opcodes[(rng.next() % opcodes.len() as u64) as usize] };
                let sh: Vec<u8> = vec![(size >> 8) as u8, size as u8, opcode as u16 as u8, ((opcode as u16) >> 8) as u8];
                let ch: Vec<u8> = vec![(size >> 8) as u8, size as u8, opcode as u8, (opcode >> 8) as u8, (opcode >> 16) as u8, (opcode >> 24) as u8];
                let via_whole = rng.next() % 2 == 0;
                match op {
                    0 => { // raw encrypt of a chunk
                        let len = (rng.next() % 13) as usize; let plain: Vec<u8> = (0..len).map(|_| rng.next() as u8).collect();
                        let want = re.enc(&plain); let mut buf = plain.clone();
                        match &mut obj { Obj::Whole(h) if via_whole => h.encrypt(&mut buf), _ => obj.e().encrypt(&mut buf) }
                        if buf != want { fail!("encrypt of a {}-byte chunk differs from the recurrence (session {}, step {})", len, session, step); }
                    }
                    1 => { // raw decrypt of a chunk
                        let len = (rng.next() % 13) as usize; let wire: Vec<u8> = (0..len).map(|_| rng.next() as u8).collect();
                        let want = rd.dec(&wire); let mut buf = wire.clone();
                        match &mut obj { Obj::Whole(h) if via_whole => h.decrypt(&mut buf), _ => obj.d().decrypt(&mut buf) }
                        if buf != want { fail!("decrypt of a {}-byte chunk differs from the recurrence (session {}, step {})", len, session, step); }
                    }
                    2 => { let want = re.enc(&sh);
                        let got = match &mut obj { Obj::Whole(h) if via_whole => h.encrypt_server_header(size, opcode as u16), _ => obj.e().encrypt_server_header(size, opcode as u16) };
                        if got.to_vec() != want { fail!("encrypt_server_header(size={:#x}, opcode={:#x}) != raw encrypt of be16(size) le16(opcode)", size, opcode as u16); } }
                    3 => { let want = re.enc(&ch);
                        let got = match &mut obj { Obj::Whole(h) if via_whole => h.encrypt_client_header(size, opcode), _ => obj.e().encrypt_client_header(size, opcode) };
                        if got.to_vec() != want { fail!("encrypt_client_header(size={:#x}, opcode={:#x}) != raw encrypt of be16(size) le32(opcode)", size, opcode); } }
                    4 | 5 => { // Write wrappers through a fragmenting, interrupting writer
                        let want = re.enc(if op == 4 { &sh } else { &ch });
                        let mut w = FragWriter { got: Vec::new(), fail_at: None, kind: std::io::ErrorKind::Other, rng: rng.next() | 1 };
                        let r = match (&mut obj, op) {
                            (Obj::Whole(h), 4) if via_whole => h.write_encrypted_server_header(&mut w, size, opcode as u16),
                            (Obj::Whole(h), _) if via_whole => h.write_encrypted_client_header(&mut w, size, opcode),
                            (o, 4) => o.e().write_encrypted_server_header(&mut w, size, opcode as u16),
                            (o, _) => o.e().write_encrypted_client_header(&mut w, size, opcode),
                        };
                        if r.is_err() || w.got != want { fail!("write_encrypted_{}_header: result {:?}, {} of {} expected bytes written / bytes differ", if op == 4 { "server" } else { "client" }, r.map_err(|e| e.kind()), w.got.len(), want.len()); }
                    }
                    6 => { let wire: Vec<u8> = (0..4).map(|_| rng.next() as u8).collect(); let p = rd.dec(&wire);
                        let mut a = [0u8; 4]; a.copy_from_slice(&wire);
                        let got = match &mut obj { Obj::Whole(h) if via_whole => h.decrypt_server_header(a), _ => obj.d().decrypt_server_header(a) };
                        if got.size != u16::from_be_bytes([p[0], p[1]]) || got.opcode != u16::from_le_bytes([p[2], p[3]]) { fail!("decrypt_server_header gives size={:#x} opcode={:#x} for plaintext {:02x?}", got.size, got.opcode, p); } }
                    7 => { let wire: Vec<u8> = (0..6).map(|_| rng.next() as u8).collect(); let p = rd.dec(&wire);
                        let mut a = [0u8; 6]; a.copy_from_slice(&wire);
                        let got = match &mut obj { Obj::Whole(h) if via_whole => h.decrypt_client_header(a), _ => obj.d().decrypt_client_header(a) };
                        if got.size != u16::from_be_bytes([p[0], p[1]]) || got.opcode != u32::from_le_bytes([p[2], p[3], p[4], p[5]]) { fail!("decrypt_client_header gives size={:#x} opcode={:#x} for plaintext {:02x?}", got.size, got.opcode, p); } }
                    8 | 9 => { // Read wrappers: fragmented, interrupted; the reader holds more bytes than the header and exactly the header is consumed
                        let hl = if op == 8 { 4 } else { 6 };
                        let data: Vec<u8> = (0..hl + 3).map(|_| rng.next() as u8).collect();
                        let p = rd.dec(&data[..hl]);
                        let mut r = FragReader { data: &data, pos: 0, fail_at: None, kind: std::io::ErrorKind::Other, rng: rng.next() | 1 };
                        let ok = if op == 8 {
                            let g = match &mut obj { Obj::Whole(h) if via_whole => h.read_and_decrypt_server_header(&mut r), _ => obj.d().read_and_decrypt_server_header(&mut r) };
                            matches!(g, Ok(h) if h.size == u16::from_be_bytes([p[0], p[1]]) && h.opcode == u16::from_le_bytes([p[2], p[3]]))
                        } else {
                            let g = match &mut obj { Obj::Whole(h) if via_whole => h.read_and_decrypt_client_header(&mut r), _ => obj.d().read_and_decrypt_client_header(&mut r) };
                            matches!(g, Ok(h) if h.size == u16::from_be_bytes([p[0], p[1]]) && h.opcode == u32::from_le_bytes([p[2], p[3], p[4], p[5]]))
                        };
                        if !ok || r.pos != hl { fail!("read_and_decrypt_{}_header through a fragmenting reader: wrong header or {} bytes consumed instead of {}", if op == 8 { "server" } else { "client" }, r.pos, hl); }
                    }
                    10 | 11 => { // reader failing before the header is complete: error with that kind, decrypter untouched (the reference does not move)
                        let hl = if op == 10 { 4 } else { 6 };
                        let data: Vec<u8> = (0..hl).map(|_| rng.next() as u8).collect();
                        let at = (rng.next() % hl as u64) as usize; let kind = KINDS[(rng.next() % 5) as usize];
                        let mut r = FragReader { data: &data, pos: 0, fail_at: Some(at), kind, rng: rng.next() | 1 };
                        let e = if op == 10 {
                            match &mut obj { Obj::Whole(h) if via_whole => h.read_and_decrypt_server_header(&mut r).err(), _ => obj.d().read_and_decrypt_server_header(&mut r).err() }
                        } else {
                            match &mut obj { Obj::Whole(h) if via_whole => h.read_and_decrypt_client_header(&mut r).err(), _ => obj.d().read_and_decrypt_client_header(&mut r).err() }
                        };
                        match e { Some(e) if e.kind() == kind => {}, other => fail!("reader failing with {:?} after {} of {} bytes: got {:?}", kind, at, hl, other.map(|e| e.kind())) }
                    }
                    12 => { // failing writer: the error is reported with its kind; the session is then abandoned (the statement fixes no state here)
                        let hl = if via_whole { 4 } else { 6 };
                        let at = (rng.next() % hl as u64) as usize; let kind = KINDS[(rng.next() % 5) as usize];
                        let mut w = FragWriter { got: Vec::new(), fail_at: Some(at), kind, rng: rng.next() | 1 };
                        let r = if via_whole { obj.e().write_encrypted_server_header(&mut w, size, opcode as u16) } else { obj.e().write_encrypted_client_header(&mut w, size, opcode) };
                        match r { Err(e) if e.kind() == kind => {}, other => fail!("writer failing with {:?} after {} of {} bytes: got {:?}", kind, at, hl, other.map_err(|e| e.kind())) }
                        break;
                    }
                    13 => { // continue on a clone; the original must stay usable and unaffected (checked by advancing the clone only)
                        obj = match &obj { Obj::Whole(h) => Obj::Whole(h.clone()), Obj::Halves(e, d) => Obj::Halves(e.clone(), d.clone()) };
                    }
                    14 => { // split
                        obj = match obj { Obj::Whole(h) => { let (e, d) = h.split(); Obj::Halves(e, d) }, o => o };
                    }
                    _ => { // re-join (Vanilla): succeeds for the two halves of one session; refused for a half of another session (key differing in one late byte)
                        obj = match obj {
                            Obj::Halves(e, d) => {
                                let mut other = sk; other[39] ^= 0x01;
                                let (_, foreign) = HeaderCrypto::new(other).split();
                                if e.is_pair_of(&foreign) || foreign.is_pair_of(&e) || !e.is_pair_of(&d) || !d.is_pair_of(&e) { fail!("is_pair_of is wrong for keys differing in the last byte / for the two halves of one session"); }
                                if e.clone().unsplit(foreign).is_ok() { fail!("unsplit accepted a decrypter of another session (keys differ in the last byte)"); }
                                match e.unsplit(d) { Ok(h) => Obj::Whole(h), Err(_) => fail!("unsplit refused the two halves of one session") }
                            }
                            o => o,
                        }; }
                }
            }
        }
        println!("REPLAY-STATS c11_vanilla_entry_points inputs={} all-ok", n);
    }

    /// C06 fallback (bounded): the world-login proof against an independent SHA-1 composition, seeds in their roles, acceptance exactly for
    /// the whole 20-byte proof, both proofs reported on refusal, crypto keyed with the presented session key
    #[test]
    fn verif_search_c06_vanilla_world_login() {
        use sha1::{Digest, Sha1};
        let seed = std::env::var("VERIF_SEED").ok().and_then(|s| s.parse::<u64>().ok()).unwrap_or(0) ^ 0x9E3779B97F4A7C15;
        let mut rng = Rng(seed);
        let mut n = 0u64;
        macro_rules! fail { ($($a:tt)*) => { { println!("REPLAY-FAIL c06_vanilla_world_login_search {}", format!($($a)*)); return; } } }
        let seeds = [0u32, 1, 0xffff_ffff, 0x0102_0304, 0x8000_0000, 0x0000_ff00];
            for round in 0..150u32 {
                let ulen = match round { 0 => 1, 1 => 16, _ => 1 + (rng.next() % 16) as usize };
                let uname: String = (0..ulen).map(|_| (0x20 + (rng.next() % 0x5f) as u8) as char).collect();
                let user = crate::normalized_string::NormalizedString::new(&uname).unwrap();
                let mut sk = [0u8; 40]; for x in sk.iter_mut() { *x = rng.next() as u8; }
                match round { 2 => sk = [0u8; 40], 3 => { for z in 0..8 { sk[39 - z] = 0; } }, 4 => { for z in 0..8 { sk[z] = 0; } }, _ => {} }
                let cs = if round < 36 { seeds[(round % 6) as usize] } else { rng.next() as u32 };
                let ss = if round < 36 { seeds[(round / 6) as usize] } else { rng.next() as u32 };
                n += 1;
                let want: [u8; 20] = Sha1::new().chain_update(uname.to_ascii_uppercase().as_bytes()).chain_update([0u8; 4]).chain_update(cs.to_le_bytes()).chain_update(ss.to_le_bytes()).chain_update(sk).finalize().into();
                let (cp, mut cc) = ProofSeed::from_specific_seed(cs).into_client_header_crypto(&user, sk, ss);
                if ProofSeed::from_specific_seed(cs).seed() != cs { fail!("{} ProofSeed::seed does not return the seed", "vanilla"); }
                if cp != want { fail!("{} client proof is not SHA1(U | 0 | client seed {:#x} | server seed {:#x} | K) user={:?}", "vanilla", cs, ss, uname); }
                let mut sc = match ProofSeed::from_specific_seed(ss).into_server_header_crypto(&user, sk, want, cs) { Ok(c) => c, Err(_) => fail!("{} server refused the correct proof (client seed {:#x}, server seed {:#x})", "vanilla", cs, ss) };
                for pos in 0..20 { for mask in [0x01u8, 0x80] { let mut bad = want; bad[pos] ^= mask;
                    match ProofSeed::from_specific_seed(ss).into_server_header_crypto(&user, sk, bad, cs) {
                        Ok(_) => fail!("{} server accepted a proof altered in byte {}", "vanilla", pos),
                        Err(e) => if e.client_proof != bad || e.server_proof != want { fail!("{} MatchProofsError does not carry (presented, computed) proofs", "vanilla"); } } } }
                { let mut bad = want; bad[0] ^= 0x40; bad[19] ^= 0x40; if ProofSeed::from_specific_seed(ss).into_server_header_crypto(&user, sk, bad, cs).is_ok() { fail!("{} server accepted a proof altered in two bytes by the same mask", "vanilla"); } }
                // the two objects are keyed alike: traffic round-trips in both directions
                let plain: Vec<u8> = (0..23).map(|_| rng.next() as u8).collect();
                let mut w = plain.clone(); cc.encrypt(&mut w); sc.decrypt(&mut w); if w != plain { fail!("{} client->server traffic does not round-trip after the world login", "vanilla"); }
                let mut w = plain.clone(); sc.encrypt(&mut w); cc.decrypt(&mut w); if w != plain { fail!("{} server->client traffic does not round-trip after the world login", "vanilla"); }
                // and with the presented session key: a peer keyed with a key differing in one byte does not decrypt it
                let mut other = sk; other[(round % 40) as usize] ^= 0x20;
                let (_, mut oc) = ProofSeed::from_specific_seed(cs).into_client_header_crypto(&user, other, ss);
                let mut a = vec![0u8; 64]; let mut b = vec![0u8; 64]; cc.encrypt(&mut a); oc.encrypt(&mut b);
                if a == b { fail!("{} crypto objects for session keys differing in byte {} produce the same 64 bytes", "vanilla", round % 40); }
            }
        println!("REPLAY-STATS c06_vanilla_world_login_search inputs={} all-ok", n);
    }
}
