// Appended (add-only) to src/matrix_card.rs of the scratch copy.
// C18 is proved by Verus; these BOUNDED native searches exist to produce concrete counterexamples (replayed against the real code)
// when an obligation fails, and as the stand-in if a function leaves the verifiable fragment.
#[cfg(all(test, gtker_wow_srp_verif))]
mod verif_search {
    use super::*;
    fn card(dc: u8, h: u8, w: u8) -> MatrixCard {
        let n = MatrixCard::get_matrix_card_size(dc, h, w);
        let data: Vec<u8> = (0..n).map(|i| ((i * 7 + 3) % 10) as u8).collect();
        MatrixCard::from_data(dc, h, w, data).unwrap()
    }
    /// the cell returned for (x, y) is the cell printed at row y, column x
    #[test]
    fn verif_search_c18_cells() {
        let mut n = 0u64;
        // every small card, then STRUCTURED shapes: digit counts around powers of two / the u8 maximum, the largest cards (255 cells,
        // offsets past 255 and past 65535 / 2)
        let mut shapes: Vec<(u8, u8, u8)> = Vec::new();
        for dc in 1..=3u8 { for h in 1..=5u8 { for w in 1..=5u8 { shapes.push((dc, h, w)); } } }
        for dc in [8u8, 9, 16, 17, 128, 255] { for (h, w) in [(1u8, 1u8), (2, 3), (3, 2)] { shapes.push((dc, h, w)); } }
        for dc in [1u8, 2, 129, 255] { for (h, w) in [(1u8, 255u8), (255, 1), (15, 17), (17, 15), (16, 15), (5, 51)] { shapes.push((dc, h, w)); } }
        for (dc, h, w) in shapes.iter().copied() {
            let c = card(dc, h, w);
            let printed: Vec<String> = c.to_printer().collect();
            for y in 0..h { for x in 0..w {
                n += 1;
                let got = std::panic::catch_unwind(|| c.get_number_at_coordinates(x, y).iter().map(|d| d.to_string()).collect::<String>());
                let want = &printed[y as usize * w as usize + x as usize];
                match got {
                    Ok(g) if &g == want => {}
                    Ok(g) => { println!("REPLAY-FAIL c18_cells digit_count={} height={} width={} x={} y={} printed={} returned={}", dc, h, w, x, y, want, g); return; }
                    Err(_) => { println!("REPLAY-FAIL c18_cells digit_count={} height={} width={} x={} y={} printed={} returned=<panic>", dc, h, w, x, y, want); return; }
                }
            } }
        }
        // accessors carry what the card was built from; from_data accepts exactly data of the card's size
        for dc in 1..=3u8 { for h in 1..=5u8 { for w in 1..=5u8 {
            n += 1;
            let size = dc as usize * h as usize * w as usize;
            if MatrixCard::get_matrix_card_size(dc, h, w) != size { println!("REPLAY-FAIL c18_cells get_matrix_card_size({}, {}, {}) is not {}", dc, h, w, size); return; }
            let data: Vec<u8> = (0..size).map(|i| ((i * 7 + 3) % 10) as u8).collect();
            let c = card(dc, h, w);
            if c.data() != &data[..] || c.width() != w || c.height() != h || c.digit_count() != dc { println!("REPLAY-FAIL c18_cells accessors of a {}x{} card with {} digits: width={} height={} digit_count={} / data differs", w, h, dc, c.width(), c.height(), c.digit_count()); return; }
            for wrong in [size + 1, size.saturating_sub(1)] { if wrong != size && MatrixCard::from_data(dc, h, w, vec![1u8; wrong]).is_some() { println!("REPLAY-FAIL c18_cells from_data accepted {} bytes for a card of {}", wrong, size); return; } }
            let fresh = MatrixCard::new(dc, h, w);
            if fresh.data().len() != size || fresh.width() != w || fresh.height() != h || fresh.digit_count() != dc { println!("REPLAY-FAIL c18_cells MatrixCard::new({}, {}, {}) has the wrong shape", dc, h, w); return; }
        } } }
        println!("REPLAY-STATS c18_cells inputs={} all-ok", n);
    }
    /// rounds 0..count-1 give distinct coordinates on the card; any other round gives None, never a panic
    #[test]
    fn verif_search_c18_rounds() {
        let key = [7u8; 40];
        let mut n = 0u64;
        for h in 1..=4u8 { for w in 1..=4u8 { for count in 1..=(h * w) { for seed in [0u64, 1, 5, 0xdeadbeef, u64::MAX] {
            let mut seen = std::collections::HashSet::new();
            for round in 0..=255u8 {
                n += 1;
                let r = std::panic::catch_unwind(|| { let mut v = MatrixCardVerifier::new(count, h, seed, w, &key); v.get_matrix_coordinates(round) });
                match r {
                    Err(_) => { println!("REPLAY-FAIL c18_rounds height={} width={} count={} seed={} round={} result=<panic>", h, w, count, seed, round); return; }
                    Ok(Some((x, y))) => {
                        if round >= count || x >= w || y >= h || !seen.insert((x, y)) { println!("REPLAY-FAIL c18_rounds height={} width={} count={} seed={} round={} result=Some(({}, {}))", h, w, count, seed, round, x, y); return; }
                    }
                    Ok(None) => { if round < count { println!("REPLAY-FAIL c18_rounds height={} width={} count={} seed={} round={} result=None", h, w, count, seed, round); return; } }
                }
            }
        } } } }
        println!("REPLAY-STATS c18_rounds inputs={} all-ok", n);
    }
    /// a client entering the printed digits of the challenged cells is accepted; one changed digit is refused
    #[test]
    fn verif_search_c18_agree() {
        let key = [9u8; 40];
        let mut n = 0u64;
        // shapes: every small card, then STRUCTURED digit counts (around powers of two, the u8 maximum) and the largest cards (255 cells)
        let mut shapes: Vec<(u8, u8, u8)> = Vec::new();
        for dc in 1..=3u8 { for h in 1..=4u8 { for w in 1..=4u8 { shapes.push((dc, h, w)); } } }
        for dc in [4u8, 5, 7, 8, 9, 10, 15, 16, 17, 31, 32, 33, 64, 65, 128, 255] { for (h, w) in [(1u8, 1u8), (2, 3), (3, 2)] { shapes.push((dc, h, w)); } }
        for (h, w) in [(1u8, 255u8), (255, 1), (15, 17), (17, 15), (5, 51)] { shapes.push((2, h, w)); }
        for (dc, h, w) in shapes { for count in 1..=((h as u16 * w as u16).min(5) as u8) { for seed in [0u64, 3, 0x1234_5678_9abc_def0] {
            let c = card(dc, h, w);
            let printed: Vec<String> = c.to_printer().collect();
            let mut v = MatrixCardVerifier::new(count, h, seed, w, &key);
            let mut wrong = MatrixCardVerifier::new(count, h, seed, w, &key);
            let mut first = true;
            // the digits a user reads off the card, in order; `wrong_last` differs in the very last digit only
            let mut entered: Vec<u8> = Vec::new();
            for round in 0..count {
                let (x, y) = match v.get_matrix_coordinates(round) { Some(p) => p, None => { println!("REPLAY-FAIL c18_agree no coordinates for round {}", round); return; } };
                for ch in printed[y as usize * w as usize + x as usize].bytes() {
                    let d = ch - b'0';
                    v.enter_value(d);
                    entered.push(d);
                    wrong.enter_value(if first { (d + 1) % 10 } else { d });
                    first = false;
                }
            }
            if entered.len() != count as usize * dc as usize { println!("REPLAY-FAIL c18_agree digit_count={} height={} width={} count={} seed={} printed cells give {} digits", dc, h, w, count, seed, entered.len()); return; }
            let mut wrong_last = MatrixCardVerifier::new(count, h, seed, w, &key);
            for (k, d) in entered.iter().enumerate() { wrong_last.enter_value(if k + 1 == entered.len() { (*d + 1) % 10 } else { *d }); }
            if verify_matrix_card_hash(&c, count, seed, &key, &wrong_last.into_proof()) { println!("REPLAY-FAIL c18_agree digit_count={} height={} width={} count={} seed={} a proof with the last digit changed was accepted", dc, h, w, count, seed); return; }
            n += 1;
            let good = v.clone().into_proof();
            // every single-byte alteration of the correct proof must be refused (the comparison covers all 20 bytes)
            for pos in 0..good.len() { for mask in [0x01u8, 0x80, 0xff] {
                let mut alt = good; alt[pos] ^= mask;
                if verify_matrix_card_hash(&c, count, seed, &key, &alt) { println!("REPLAY-FAIL c18_agree digit_count={} height={} width={} count={} seed={} a proof altered in byte {} (xor {:#04x}) was accepted", dc, h, w, count, seed, pos, mask); return; }
            } }
            let ok = verify_matrix_card_hash(&c, count, seed, &key, &v.into_proof());
            let bad = verify_matrix_card_hash(&c, count, seed, &key, &wrong.into_proof());
            if !ok || bad { println!("REPLAY-FAIL c18_agree digit_count={} height={} width={} count={} seed={} accepted_correct={} accepted_wrong={}", dc, h, w, count, seed, ok, bad); return; }
        } } }
        println!("REPLAY-STATS c18_agree inputs={} all-ok", n);
    }
}
