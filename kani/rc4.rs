// Appended (add-only) to src/rc4.rs of the scratch copy.
#[cfg(kani)]
pub mod verif_kani {
    use super::*;
    /// build an Rc4 from raw parts (to quantify over every cipher state)
    pub fn verif_rc4(state: [u8; 256], i: u8, j: u8) -> Rc4 { Rc4 { state, i, j } }
    pub fn verif_rc4_parts(r: &Rc4) -> (&[u8; 256], u8, u8) { (&r.state, r.i, r.j) }

    /// textbook PRGA step on raw parts
    pub fn ref_prga(state: &mut [u8; 256], i: &mut u8, j: &mut u8) -> u8 {
        *i = ((*i as u16 + 1) % 256) as u8;
        *j = ((*j as u16 + state[*i as usize] as u16) % 256) as u8;
        let t = state[*i as usize]; state[*i as usize] = state[*j as usize]; state[*j as usize] = t;
        state[((state[*i as usize] as u16 + state[*j as usize] as u16) % 256) as usize]
    }

    /// C09 (bounded: calls of 0..=3 bytes; every state incl. non-permutations, every counter value):
    /// apply_keystream XORs with the textbook keystream and advances the state as the textbook PRGA does
    #[kani::proof]
    #[kani::unwind(5)]
    pub fn c09_apply_keystream_3() {
        let state: [u8; 256] = kani::any();
        let i0: u8 = kani::any(); let j0: u8 = kani::any();
        let data: [u8; 3] = kani::any();
        let len: usize = kani::any(); kani::assume(len <= 3);
        let mut r = Rc4 { state, i: i0, j: j0 };
        let mut buf = data;
        r.apply_keystream(&mut buf[..len]);
        let (mut s, mut i, mut j) = (state, i0, j0);
        let mut ok = true;
        let mut n = 0;
        while n < 3 {
            if n < len { let k = ref_prga(&mut s, &mut i, &mut j); ok &= buf[n] == data[n] ^ k; } else { ok &= buf[n] == data[n]; }
            n += 1;
        }
        ok &= r.i == i && r.j == j;
        let probe: u8 = kani::any();
        ok &= r.state[probe as usize] == s[probe as usize];
        kani::cover!(len == 3 && i0 == 255);
        assert!(ok, "C09 apply_keystream = XOR with textbook RC4 keystream, state advanced accordingly");
    }
}
