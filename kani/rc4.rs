// Appended (add-only) to src/rc4.rs of the scratch copy.
#[cfg(kani)]
pub mod verif_kani {
    use super::*;
    /// build an Rc4 from raw parts (to quantify over every cipher state)
    pub fn verif_rc4(state: [u8; 256], i: u8, j: u8) -> Rc4 { Rc4 { state, i, j } }
    pub fn verif_rc4_parts(r: &Rc4) -> (&[u8; 256], u8, u8) { (&r.state, r.i, r.j) }

    /// textbook PRGA step on raw parts
    pub fn ref_prga(state: &mut [u8; 256], i: &mut u8, j: &mut u8) -> u8 {
        *i = ((*i as u16 + 1) % 256) as u8;
        *j = ((*j as u16 + state[*i as usize] as u16) % 256) as u8;
        let t = state[*i as usize]; state[*i as usize] = state[*j as usize]; state[*j as usize] = t;
        state[((state[*i as usize] as u16 + state[*j as usize] as u16) % 256) as usize]
    }

    /// C09 (bounded: calls of 0..=3 bytes; every state incl. non-permutations, every counter value):
    /// apply_keystream XORs with the textbook keystream and advances the state as the textbook PRGA does
    #[kani::proof]
    #[kani::unwind(5)]
    pub fn c09_apply_keystream_3() {
        let state: [u8; 256] = kani::any();
        let i0: u8 = kani::any(); let j0: u8 = kani::any();
        let data: [u8; 3] = kani::any();
        let len: usize = kani::any(); kani::assume(len <= 3);
        let mut r = Rc4 { state, i: i0, j: j0 };
        let mut buf = data;
        r.apply_keystream(&mut buf[..len]);
        let (mut s, mut i, mut j) = (state, i0, j0);
        let mut ok = true;
        let mut n = 0;
        while n < 3 {
            if n < len { let k = ref_prga(&mut s, &mut i, &mut j); ok &= buf[n] == data[n] ^ k; } else { ok &= buf[n] == data[n]; }
            n += 1;
        }
        ok &= r.i == i && r.j == j;
        let probe: u8 = kani::any();
        ok &= r.state[probe as usize] == s[probe as usize];
        kani::cover!(len == 3 && i0 == 255);
        assert!(ok, "C09 apply_keystream = XOR with textbook RC4 keystream, state advanced accordingly");
    }
}

// C09: the RC4 key schedule is outside both verifiers (closures/cycle for Verus; SAT size for CBMC, DESIGN.md section 9).
// Its assumed contract `Rc4::new(key) == textbook KSA(key)` is backed only by this BOUNDED differential test.
#[cfg(all(test, gtker_wow_srp_verif))]
mod verif_search {
    use super::*;
    struct Rng(u64);
    impl Rng { fn next(&mut self) -> u64 { self.0 ^= self.0 << 13; self.0 ^= self.0 >> 7; self.0 ^= self.0 << 17; self.0 } }
    fn textbook_ksa(key: &[u8]) -> [u8; 256] {
        let mut s = [0u8; 256];
        for i in 0..256 { s[i] = i as u8; }
        let mut j = 0usize;
        for i in 0..256 { j = (j + s[i] as usize + key[i % key.len()] as usize) % 256; s.swap(i, j); }
        s
    }
    fn check(key: &[u8]) -> bool { let r = Rc4::new(key); r.state == textbook_ksa(key) && r.i == 0 && r.j == 0 }
    #[test]
    fn verif_search_c09_ksa() {
        let seed = std::env::var("VERIF_SEED").ok().and_then(|s| s.parse::<u64>().ok()).unwrap_or(0) ^ 0x9E3779B97F4A7C15;
        let count: u64 = std::env::var("VERIF_SEARCH_COUNT").ok().and_then(|s| s.parse().ok()).unwrap_or(10000);
        let mut rng = Rng(seed);
        let mut n = 0u64;
        // RFC 6229 style keys, single non-zero byte keys, all-equal-byte keys, lengths 16 and 20 (and 1..=32)
        for len in 1..=32usize {
            for v in [0u8, 1, 0x7f, 0x80, 0xff] { let k = vec![v; len]; n += 1; if !check(&k) { println!("REPLAY-FAIL c09_ksa key={:02x?}", k); return; } }
            for pos in 0..len { for v in [1u8, 0xff] { let mut k = vec![0u8; len]; k[pos] = v; n += 1; if !check(&k) { println!("REPLAY-FAIL c09_ksa key={:02x?}", k); return; } } }
            let k: Vec<u8> = (1..=len as u8).collect(); n += 1; if !check(&k) { println!("REPLAY-FAIL c09_ksa key={:02x?}", k); return; }
        }
        for _ in 0..count { for len in [16usize, 20] {
            let k: Vec<u8> = (0..len).map(|_| rng.next() as u8).collect(); n += 1;
            if !check(&k) { println!("REPLAY-FAIL c09_ksa key={:02x?}", k); return; }
        } }
        println!("REPLAY-STATS c09_ksa inputs={} all-ok", n);
    }

    /// apply_keystream against the textbook PRGA for calls of many lengths (0, 1, 255..257, 300, 1000, 70000 bytes) and chunkings
    #[test]
    fn verif_search_c09_stream() {
        let seed = std::env::var("VERIF_SEED").ok().and_then(|s| s.parse::<u64>().ok()).unwrap_or(0) ^ 0x9E3779B97F4A7C15;
        let mut rng = Rng(seed);
        let lens = [0usize, 1, 2, 5, 6, 64, 255, 256, 257, 300, 511, 512, 513, 1000, 1024, 65535, 65536, 65537, 70000];
        let mut n = 0u64;
        for round in 0..6 { for &len in lens.iter() {
            let key: Vec<u8> = (0..20).map(|_| rng.next() as u8).collect();
            let mut s = textbook_ksa(&key);
            let (mut i, mut j) = (0u8, 0u8);
            let mut r1 = Rc4::new(&key);
            let mut r2 = Rc4::new(&key);
            let plain: Vec<u8> = (0..len).map(|_| rng.next() as u8).collect();
            let mut want = plain.clone();
            for x in want.iter_mut() {
                i = i.wrapping_add(1); j = j.wrapping_add(s[i as usize]); s.swap(i as usize, j as usize);
                *x ^= s[s[i as usize].wrapping_add(s[j as usize]) as usize];
            }
            let mut one = plain.clone(); r1.apply_keystream(&mut one);
            let mut many = plain.clone();
            let mut pos = 0;
            while pos < len { let c = 1 + (rng.next() as usize % (len - pos)).min(if round % 2 == 0 { 300 } else { 7 }); r2.apply_keystream(&mut many[pos..pos + c]); pos += c; r2.apply_keystream(&mut many[pos..pos]); }
            n += 1;
            if one != want || many != want || r1.state != s || r2.state != s || r1.i != i || r1.j != j || r2.i != i || r2.j != j {
                let first = one.iter().zip(want.iter()).position(|(a, b)| a != b);
                println!("REPLAY-FAIL c09_stream len={} round={} first_diff_single_call={:?} (keystream or state differs from textbook RC4)", len, round, first); return;
            }
        } }
        println!("REPLAY-STATS c09_stream inputs={} all-ok", n);
    }
}
