// Appended (add-only) to src/integrity.rs of the scratch copy.
// C17 is proved by Verus; this BOUNDED native search is the counterexample finder / stand-in when a function leaves the fragment.
#[cfg(all(test, gtker_wow_srp_verif))]
mod verif_search {
    use super::*;
    struct Rng(u64);
    impl Rng { fn next(&mut self) -> u64 { self.0 ^= self.0 << 13; self.0 ^= self.0 >> 7; self.0 ^= self.0 << 17; self.0 } }
    fn reference(all: &[u8], salt: &[u8; 16], key: &[u8; 32]) -> [u8; 20] {
        let mut h: Hmac<Sha1> = Hmac::<Sha1>::new_from_slice(salt).unwrap();
        h.update(all);
        let c: [u8; 20] = h.finalize_fixed().into();
        Sha1::new().chain_update(key).chain_update(c).finalize_fixed().into()
    }
    /// every distribution of a byte string over the five file arguments (every subset of empty files), both platform functions and
    /// the single-buffer function give SHA1(key | HMAC-SHA1(salt, concatenation))
    #[test]
    fn verif_search_c17_integrity() {
        let seed = std::env::var("VERIF_SEED").ok().and_then(|s| s.parse::<u64>().ok()).unwrap_or(0) ^ 0x9E3779B97F4A7C15;
        let mut rng = Rng(seed);
        let mut n = 0u64;
        for round in 0..8 { for empties in 0..32u32 {
            let mut files: Vec<Vec<u8>> = Vec::new();
            for f in 0..5 { let len = if empties & (1 << f) != 0 { 0 } else { 1 + (rng.next() % 70) as usize }; files.push((0..len).map(|_| rng.next() as u8).collect()); }
            let mut salt = [0u8; 16]; for x in salt.iter_mut() { *x = rng.next() as u8; }
            let mut key = [0u8; 32]; for x in key.iter_mut() { *x = rng.next() as u8; }
            let all: Vec<u8> = files.iter().flatten().copied().collect();
            let want = reference(&all, &salt, &key);
            let w = login_integrity_check_windows(&files[0], &files[1], &files[2], &files[3], &files[4], &salt, &key);
            let m = login_integrity_check_mac(&files[0], &files[1], &files[2], &files[3], &files[4], &salt, &key);
            let g = login_integrity_check_generic(&all, &salt, &key);
            n += 1;
            if w != want || m != want || g != want {
                println!("REPLAY-FAIL c17_integrity file_lengths={:?} round={} windows_ok={} mac_ok={} generic_ok={}", files.iter().map(|f| f.len()).collect::<Vec<_>>(), round, w == want, m == want, g == want);
                return;
            }
        } }
        let mut salt = [0u8; 16]; for x in salt.iter_mut() { *x = rng.next() as u8; }
        let r: [u8; 20] = Sha1::new().chain_update(salt).chain_update([0u8; 20]).finalize_fixed().into();
        if reconnect_integrity_check(&salt) != r { println!("REPLAY-FAIL c17_integrity reconnect check differs from SHA1(salt | 20 zero bytes)"); return; }
        println!("REPLAY-STATS c17_integrity inputs={} all-ok", n + 1);
    }
}
