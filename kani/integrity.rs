// Appended (add-only) to src/integrity.rs of the scratch copy.
// C17 is proved by Verus; this BOUNDED native search is the counterexample finder / stand-in when a function leaves the fragment.
#[cfg(all(test, gtker_wow_srp_verif))]
mod verif_search {
    use super::*;
    struct Rng(u64);
    impl Rng { fn next(&mut self) -> u64 { self.0 ^= self.0 << 13; self.0 ^= self.0 >> 7; self.0 ^= self.0 << 17; self.0 } }
    fn reference(all: &[u8], salt: &[u8; 16], key: &[u8; 32]) -> [u8; 20] {
        let mut h: Hmac<Sha1> = Hmac::<Sha1>::new_from_slice(salt).unwrap();
        h.update(all);
        let c: [u8; 20] = h.finalize_fixed().into();
        Sha1::new().chain_update(key).chain_update(c).finalize_fixed().into()
    }
    /// every distribution of a byte string over the five file arguments (every subset of empty files), both platform functions and
    /// the single-buffer function give SHA1(key | HMAC-SHA1(salt, concatenation))
    #[test]
    fn verif_search_c17_integrity() {
        let seed = std::env::var("VERIF_SEED").ok().and_then(|s| s.parse::<u64>().ok()).unwrap_or(0) ^ 0x9E3779B97F4A7C15;
        let mut rng = Rng(seed);
        let mut n = 0u64;
        for round in 0..12 { for empties in 0..32u32 {
            let mut files: Vec<Vec<u8>> = Vec::new();
            for f in 0..5 { let len = if empties & (1 << f) != 0 { 0 } else if round >= 8 && f == (round - 8) as usize { 64 * (1 + (rng.next() % 3) as usize) } else { 1 + (rng.next() % 70) as usize }; files.push((0..len).map(|_| rng.next() as u8).collect()); }
            let mut salt = [0u8; 16]; for x in salt.iter_mut() { *x = rng.next() as u8; }
            let mut key = [0u8; 32]; for x in key.iter_mut() { *x = rng.next() as u8; }
            // special values of the key's domain first: 0, N, N with one bit changed, all-ones, zero bytes at either end; all-zero / all-ones salts
            match round { 0 => key = [0u8; 32], 1 => key = crate::LARGE_SAFE_PRIME_LITTLE_ENDIAN, 2 => { key = crate::LARGE_SAFE_PRIME_LITTLE_ENDIAN; key[(empties % 32) as usize] ^= 1 << (empties % 8); },
                          3 => key = [0xff; 32], 4 => { for z in 0..8 { key[31 - z] = 0; } }, 5 => { for z in 0..8 { key[z] = 0; } }, _ => {} }
            if round == 6 { salt = [0u8; 16]; } if round == 7 { salt = [0xff; 16]; }
            let all: Vec<u8> = files.iter().flatten().copied().collect();
            let want = reference(&all, &salt, &key);
            let w = login_integrity_check_windows(&files[0], &files[1], &files[2], &files[3], &files[4], &salt, &key);
            let m = login_integrity_check_mac(&files[0], &files[1], &files[2], &files[3], &files[4], &salt, &key);
            let g = login_integrity_check_generic(&all, &salt, &key);
            n += 1;
            if w != want || m != want || g != want {
                println!("REPLAY-FAIL c17_integrity file_lengths={:?} round={} windows_ok={} mac_ok={} generic_ok={}", files.iter().map(|f| f.len()).collect::<Vec<_>>(), round, w == want, m == want, g == want);
                return;
            }
        } }
        let mut salt = [0u8; 16]; for x in salt.iter_mut() { *x = rng.next() as u8; }
        let r: [u8; 20] = Sha1::new().chain_update(salt).chain_update([0u8; 20]).finalize_fixed().into();
        if reconnect_integrity_check(&salt) != r { println!("REPLAY-FAIL c17_integrity reconnect check differs from SHA1(salt | 20 zero bytes)"); return; }
        println!("REPLAY-STATS c17_integrity inputs={} all-ok", n + 1);
    }

    /// Sanity check of three stand-in assumptions of spec/prelude against the real crates (bounded): streaming updates concatenate
    /// (sha1 chain_update, hmac update, md5 consume), HMAC accepts keys of any length, digests have the stated lengths.
    #[test]
    fn verif_search_prelude_streaming() {
        let seed = std::env::var("VERIF_SEED").ok().and_then(|s| s.parse::<u64>().ok()).unwrap_or(0) ^ 0x9E3779B97F4A7C15;
        let mut rng = Rng(seed);
        let mut n = 0u64;
        for _ in 0..400 {
            let la = (rng.next() % 150) as usize; let lb = (rng.next() % 150) as usize; let lk = (rng.next() % 100) as usize;
            let a: Vec<u8> = (0..la).map(|_| rng.next() as u8).collect();
            let b: Vec<u8> = (0..lb).map(|_| rng.next() as u8).collect();
            let k: Vec<u8> = (0..lk).map(|_| rng.next() as u8).collect();
            let ab: Vec<u8> = a.iter().chain(b.iter()).copied().collect();
            n += 1;
            let s1: [u8; 20] = Sha1::new().chain_update(&a).chain_update(&b).finalize_fixed().into();
            let s2: [u8; 20] = Sha1::new().chain_update(&ab).finalize_fixed().into();
            if s1 != s2 { println!("REPLAY-FAIL prelude_streaming sha1 chain_update(a).chain_update(b) != chain_update(a|b) la={} lb={}", la, lb); return; }
            let mut h1: Hmac<Sha1> = match Hmac::<Sha1>::new_from_slice(&k) { Ok(h) => h, Err(_) => { println!("REPLAY-FAIL prelude_streaming hmac rejects a key of {} bytes", lk); return; } };
            h1.update(&a); h1.update(&b);
            let mut h2: Hmac<Sha1> = Hmac::<Sha1>::new_from_slice(&k).unwrap(); h2.update(&ab);
            let (m1, m2): ([u8; 20], [u8; 20]) = (h1.finalize_fixed().into(), h2.finalize_fixed().into());
            if m1 != m2 { println!("REPLAY-FAIL prelude_streaming hmac update(a);update(b) != update(a|b)"); return; }
            #[cfg(feature = "matrix-card")]
            {
                let mut c1 = md5::Context::new(); c1.consume(&a); c1.consume(&b);
                let mut c2 = md5::Context::new(); c2.consume(&ab);
                if c1.compute().0 != c2.compute().0 { println!("REPLAY-FAIL prelude_streaming md5 consume(a);consume(b) != consume(a|b)"); return; }
            }
        }
        println!("REPLAY-STATS prelude_streaming inputs={} all-ok", n);
    }
}

