// Appended (add-only) to src/wrath_header/decrypt.rs of the scratch copy.
#[cfg(kani)]
pub mod verif_kani {
    use super::*;
    pub fn verif_client_dec(c: InnerCrypto, header: [u8; 4]) -> ClientDecrypterHalf { ClientDecrypterHalf { decrypt: c, header } }
    pub fn verif_client_dec_parts(h: &ClientDecrypterHalf) -> (&InnerCrypto, [u8; 4]) { (&h.decrypt, h.header) }
    pub fn verif_server_dec(c: InnerCrypto) -> ServerDecrypterHalf { ServerDecrypterHalf { decrypt: c } }
}
