// Appended (add-only) to src/tbc_header/mod.rs of the scratch copy.
// Kani contract harnesses for the TBC cipher: independent second discharge of the Verus contracts and the fallback
// when a function leaves the fragment Verus reads. Reference = the recurrence of C08 written out directly.
#[cfg(kani)]
pub mod verif_kani {
    use super::*;
    use super::decrypt::DecrypterHalf; use super::encrypt::EncrypterHalf;

    fn ref_enc(key: &[u8; 20], idx: u8, prev: u8, data: &mut [u8; 8], len: usize) -> (u8, u8) {
        let (mut i, mut p) = (idx, prev);
        let mut n = 0;
        while n < 8 {
            if n < len {
                let c = (((data[n] ^ key[i as usize]) as u16 + p as u16) % 256) as u8;
                data[n] = c; p = c; i = ((i as u16 + 1) % 20) as u8;
            }
            n += 1;
        }
        (i, p)
    }

    /// C08 (bounded: calls of 0..=8 bytes; any key, any state): encrypt follows the recurrence, decrypt inverts it,
    /// both leave (index, previous byte) as the recurrence says; a zero-length call changes nothing.
    #[kani::proof]
    #[kani::unwind(42)]
    pub fn c08_encrypt_decrypt_8() {
        let key: [u8; 20] = kani::any();
        let idx: u8 = kani::any(); kani::assume(idx < 20);
        let prev: u8 = kani::any();
        let plain: [u8; 8] = kani::any();
        let len: usize = kani::any(); kani::assume(len <= 8);
        let mut e = EncrypterHalf { key: key, index: idx, previous_value: prev };
        let mut d = DecrypterHalf { key: key, index: idx, previous_value: prev };
        let mut buf = plain;
        e.encrypt(&mut buf[..len]);
        let mut want = plain;
        let (wi, wp) = ref_enc(&key, idx, prev, &mut want, len);
        let mut ok = e.index == wi && e.previous_value == wp && e.key == key;
        let mut n = 0;
        while n < 8 { ok &= buf[n] == want[n]; n += 1; }
        d.decrypt(&mut buf[..len]);
        n = 0;
        while n < 8 { ok &= buf[n] == plain[n]; n += 1; }
        ok &= d.index == wi && d.previous_value == wp && d.key == key;
        if len == 0 { ok &= e.index == idx && e.previous_value == prev && d.index == idx && d.previous_value == prev; }
        kani::cover!(len == 8);
        kani::cover!(len == 0);
        assert!(ok, "C08 vanilla encrypt/decrypt follow the recurrence from any state (calls of up to 8 bytes)");
    }

    /// C08/C11 (complete): typed header helpers = raw operation on big-endian size | little-endian opcode; the peer decodes them
    #[kani::proof]
    #[kani::unwind(10)]
    pub fn c11_tbc_headers() {
        let key: [u8; 20] = kani::any();
        let idx: u8 = kani::any(); kani::assume(idx < 20);
        let prev: u8 = kani::any();
        let size: u16 = kani::any();
        let op16: u16 = kani::any();
        let op32: u32 = kani::any();
        let client: bool = kani::any();
        let mut c = HeaderCrypto { decrypt: DecrypterHalf { key: key, index: idx, previous_value: prev },
                                   encrypt: EncrypterHalf { key: key, index: idx, previous_value: prev } };
        let mut raw = [0u8; 8];
        let mut ok = true;
        if client {
            let h = c.encrypt_client_header(size, op32);
            raw[0] = (size >> 8) as u8; raw[1] = size as u8;
            raw[2] = op32 as u8; raw[3] = (op32 >> 8) as u8; raw[4] = (op32 >> 16) as u8; raw[5] = (op32 >> 24) as u8;
            let (wi, wp) = ref_enc(&key, idx, prev, &mut raw, 6);
            let mut n = 0;
            while n < 6 { ok &= h[n] == raw[n]; n += 1; }
            ok &= c.encrypt.index == wi && c.encrypt.previous_value == wp;
            ok &= c.decrypt.index == idx && c.decrypt.previous_value == prev;   // C12 frame
            let back = c.decrypt_client_header(h);
            ok &= back.size == size && back.opcode == op32;
            ok &= c.decrypt.index == wi && c.decrypt.previous_value == wp;
        } else {
            let h = c.encrypt_server_header(size, op16);
            raw[0] = (size >> 8) as u8; raw[1] = size as u8; raw[2] = op16 as u8; raw[3] = (op16 >> 8) as u8;
            let (wi, wp) = ref_enc(&key, idx, prev, &mut raw, 4);
            let mut n = 0;
            while n < 4 { ok &= h[n] == raw[n]; n += 1; }
            ok &= c.encrypt.index == wi && c.encrypt.previous_value == wp;
            ok &= c.decrypt.index == idx && c.decrypt.previous_value == prev;
            let back = c.decrypt_server_header(h);
            ok &= back.size == size && back.opcode == op16;
            ok &= c.decrypt.index == wi && c.decrypt.previous_value == wp;
        }
        kani::cover!(client);
        kani::cover!(!client);
        assert!(ok, "C11 vanilla typed header helpers equal the raw operation on the wire layout and round-trip");
    }
}

// ---- C06: world-login glue of this module (proof function and key setup replaced by recording stubs = their proved contracts)
#[cfg(kani)]
pub mod verif_kani_c06 {
    use super::*;
    #[allow(unused_imports)] use crate::key::{Proof, SessionKey}; #[allow(unused_imports)] use crate::normalized_string::NormalizedString; #[allow(unused_imports)] use crate::error::MatchProofsError;
    use core::sync::atomic::{AtomicU8, AtomicU32, AtomicUsize, Ordering};
    use crate::normalized_string::verif_kani::verif_make;
    static P: [AtomicU8; 20] = [const { AtomicU8::new(0) }; 20];
    static SS: AtomicU32 = AtomicU32::new(0);
    static CS: AtomicU32 = AtomicU32::new(0);
    static KEY_OK: AtomicUsize = AtomicUsize::new(0);
    static K: [AtomicU8; 40] = [const { AtomicU8::new(0) }; 40];
    static NEW_CALLS: AtomicUsize = AtomicUsize::new(0);
    fn proof_stub(_u: &NormalizedString, k: &SessionKey, server_seed: u32, client_seed: u32) -> Proof {
        SS.store(server_seed, Ordering::Relaxed); CS.store(client_seed, Ordering::Relaxed);
        let mut same = true; let mut i = 0; while i < 40 { same &= k.as_le_bytes()[i] == K[i].load(Ordering::Relaxed); i += 1; }
        KEY_OK.store(same as usize, Ordering::Relaxed);
        let mut p = [0u8; 20]; i = 0; while i < 20 { p[i] = P[i].load(Ordering::Relaxed); i += 1; } Proof::from_le_bytes(p)
    }
    fn new_stub(k: [u8; 40]) -> HeaderCrypto {
        let mut same = true; let mut i = 0; while i < 40 { same &= k[i] == K[i].load(Ordering::Relaxed); i += 1; }
        NEW_CALLS.store(if same { 1 } else { 2 }, Ordering::Relaxed);
        HeaderCrypto { decrypt: DecrypterHalf { key: [0; 20], index: 0, previous_value: 0 }, encrypt: EncrypterHalf { key: [0; 20], index: 0, previous_value: 0 } }
    }
    fn body(with_covers: bool) -> bool {
        let name = verif_make(kani::any(), kani::any());
        let key: [u8; 40] = kani::any(); let computed: [u8; 20] = kani::any(); let presented: [u8; 20] = kani::any();
        let own: u32 = kani::any(); let peer: u32 = kani::any();
        let mut i = 0; while i < 20 { P[i].store(computed[i], Ordering::Relaxed); i += 1; }
        i = 0; while i < 40 { K[i].store(key[i], Ordering::Relaxed); i += 1; }
        let seed = ProofSeed { seed: own };
        let mut ok = seed.seed() == own;
        let server: bool = kani::any();
        if server {
            let mut same = true; i = 0; while i < 20 { if presented[i] != computed[i] { same = false; } i += 1; }
            match seed.into_server_header_crypto(&name, key, presented, peer) {
                Ok(_) => { ok &= same && NEW_CALLS.load(Ordering::Relaxed) == 1; }
                Err(e) => { ok &= !same && e.client_proof == presented && e.server_proof == computed && NEW_CALLS.load(Ordering::Relaxed) == 0; }
            }
            // the server passes (own seed, client seed)
            ok &= SS.load(Ordering::Relaxed) == own && CS.load(Ordering::Relaxed) == peer && KEY_OK.load(Ordering::Relaxed) == 1;
            if with_covers { kani::cover!(same); kani::cover!(!same); }
        } else {
            let (p, _c) = seed.into_client_header_crypto(&name, key, peer);
            ok &= p == computed && NEW_CALLS.load(Ordering::Relaxed) == 1;
            // the client passes (server seed, own seed)
            ok &= SS.load(Ordering::Relaxed) == peer && CS.load(Ordering::Relaxed) == own && KEY_OK.load(Ordering::Relaxed) == 1;
        }
        ok
    }
    /// C06 (complete over proofs, keys, seeds): Ok iff whole 20-byte equality; Err carries both proofs and no crypto is built;
    /// seeds are passed in the right roles; seed() returns the field; the crypto object is keyed with the presented session key.
    #[kani::proof]
    #[kani::unwind(42)]
    #[kani::stub(crate::vanilla_header::internal::calculate_world_server_proof, proof_stub)]
    #[kani::stub(crate::tbc_header::HeaderCrypto::new, new_stub)]
    pub fn c06_tbc_world_login() { assert!(body(true), "C06 world-login: Ok iff whole-proof equality, Err carries both proofs, seeds in the right roles"); }
    #[kani::proof]
    #[kani::unwind(42)]
    #[kani::stub(crate::vanilla_header::internal::calculate_world_server_proof, proof_stub)]
    #[kani::stub(crate::tbc_header::HeaderCrypto::new, new_stub)]
    pub fn c06_tbc_world_login_cex() { let ok = body(false); kani::cover!(!ok, "counterexample"); }
}

// ---- C07/C08: long calls - position bookkeeping across calls much longer than the key and across the 8-bit boundary
#[cfg(kani)]
pub mod verif_kani_long {
    use super::*;
    use super::decrypt::DecrypterHalf; use super::encrypt::EncrypterHalf;
    const N: usize = 300;
    /// (bounded: one call of 0..=300 bytes from any position): the position counter after the call is (position + length) mod L
    /// on both halves - in particular for position + length >= 256
    #[kani::proof]
    #[kani::unwind(302)]
    pub fn c08_long_call_300() {
        let key: [u8; 20] = kani::any();
        let idx: u8 = kani::any(); kani::assume(idx < 20);
        let len: usize = kani::any(); kani::assume(len <= N);
        let mut e = EncrypterHalf { key: key, index: idx, previous_value: 0 };
        let mut d = DecrypterHalf { key: key, index: idx, previous_value: 0 };
        let mut buf = [0u8; N];
        e.encrypt(&mut buf[..len]);
        d.decrypt(&mut buf[..len]);
        let want = ((idx as usize + len) % 20) as u8;
        kani::cover!(len == N);
        assert!(e.index == want && d.index == want, "C07/C08 long call: position counter = (position + length) mod key length, also beyond 255 bytes");
    }
}

// Bounded native search (labelled bounded; counterexample finder / stand-in when a cipher function leaves the verifiable fragment):
// random keys and states, calls of many lengths including 0, 255..257, 300, 512 +- 1 and 1000 bytes, split into random chunkings.
#[cfg(all(test, gtker_wow_srp_verif))]
mod verif_search {
    use super::*;
    use super::decrypt::DecrypterHalf; use super::encrypt::EncrypterHalf;
    struct Rng(u64);
    impl Rng { fn next(&mut self) -> u64 { self.0 ^= self.0 << 13; self.0 ^= self.0 >> 7; self.0 ^= self.0 << 17; self.0 } }
    const KL: usize = 20;
    fn reference(key: &[u8; KL], idx: u8, prev: u8, plain: &[u8]) -> (Vec<u8>, u8, u8) {
        let (mut i, mut p) = (idx as usize, prev);
        let mut out = Vec::with_capacity(plain.len());
        for x in plain { let c = (x ^ key[i]).wrapping_add(p); out.push(c); p = c; i = (i + 1) % KL; }
        (out, i as u8, p)
    }
    #[test]
    fn verif_search_c08_stream() {
        let seed = std::env::var("VERIF_SEED").ok().and_then(|s| s.parse::<u64>().ok()).unwrap_or(0) ^ 0x9E3779B97F4A7C15;
        let mut rng = Rng(seed);
        let lens = [0usize, 1, 2, 3, 4, 5, 6, 7, 19, 20, 21, 39, 40, 41, 64, 100, 235, 236, 254, 255, 256, 257, 300, 511, 512, 513, 1000];
        let mut n = 0u64;
        for round in 0..40 { for &len in lens.iter() {
            let mut key = [0u8; KL]; for k in key.iter_mut() { *k = rng.next() as u8; }
            let idx = (rng.next() % KL as u64) as u8; let prev = rng.next() as u8;
            let plain: Vec<u8> = (0..len).map(|_| rng.next() as u8).collect();
            let (want, wi, wp) = reference(&key, idx, prev, &plain);
            // sender: random chunking (with empty calls); receiver: a different random chunking
            let mut e = EncrypterHalf { key: key, index: idx, previous_value: prev };
            let mut d = DecrypterHalf { key: key, index: idx, previous_value: prev };
            let mut wire = plain.clone();
            let mut pos = 0;
            while pos < len || (round % 3 == 0 && pos == len && rng.next() % 4 == 0) {
                let c = if round % 2 == 0 { len - pos } else { (rng.next() as usize % (len - pos + 1)).min(len - pos) };
                e.encrypt(&mut wire[pos..pos + c]); pos += c;
                if c == 0 && pos == len { break; }
            }
            n += 1;
            if wire != want || e.index != wi || e.previous_value != wp {
                println!("REPLAY-FAIL c08_stream encrypt len={} index={} prev={} round={} (ciphertext or state differs from the recurrence)", len, idx, prev, round); return;
            }
            let mut back = wire.clone();
            let mut pos = 0;
            while pos < len { let c = 1 + (rng.next() as usize % (len - pos)); d.decrypt(&mut back[pos..pos + c]); pos += c; d.decrypt(&mut back[pos..pos]); }
            if back != plain || d.index != wi || d.previous_value != wp {
                println!("REPLAY-FAIL c08_stream decrypt len={} index={} prev={} round={} (plaintext not recovered or state differs)", len, idx, prev, round); return;
            }
        } }
        println!("REPLAY-STATS c08_stream inputs={} all-ok", n);
    }
}
