// Appended (add-only) to src/tbc_header/mod.rs of the scratch copy.
// Kani contract harnesses for the TBC cipher: independent second discharge of the Verus contracts and the fallback
// when a function leaves the fragment Verus reads. Reference = the recurrence of C08 written out directly.
#[cfg(kani)]
pub mod verif_kani {
    use super::*;
    use super::decrypt::DecrypterHalf; use super::encrypt::EncrypterHalf;

    fn ref_enc(key: &[u8; 20], idx: u8, prev: u8, data: &mut [u8; 8], len: usize) -> (u8, u8) {
        let (mut i, mut p) = (idx, prev);
        let mut n = 0;
        while n < 8 {
            if n < len {
                let c = (((data[n] ^ key[i as usize]) as u16 + p as u16) % 256) as u8;
                data[n] = c; p = c; i = ((i as u16 + 1) % 20) as u8;
            }
            n += 1;
        }
        (i, p)
    }

    /// C08 (bounded: calls of 0..=8 bytes; any key, any state): encrypt follows the recurrence, decrypt inverts it,
    /// both leave (index, previous byte) as the recurrence says; a zero-length call changes nothing.
    #[kani::proof]
    #[kani::unwind(42)]
    pub fn c08_encrypt_decrypt_8() {
        let key: [u8; 20] = kani::any();
        let idx: u8 = kani::any(); kani::assume(idx < 20);
        let prev: u8 = kani::any();
        let plain: [u8; 8] = kani::any();
        let len: usize = kani::any(); kani::assume(len <= 8);
        let mut e = EncrypterHalf { key: key, index: idx, previous_value: prev };
        let mut d = DecrypterHalf { key: key, index: idx, previous_value: prev };
        let mut buf = plain;
        e.encrypt(&mut buf[..len]);
        let mut want = plain;
        let (wi, wp) = ref_enc(&key, idx, prev, &mut want, len);
        let mut ok = e.index == wi && e.previous_value == wp && e.key == key;
        let mut n = 0;
        while n < 8 { ok &= buf[n] == want[n]; n += 1; }
        d.decrypt(&mut buf[..len]);
        n = 0;
        while n < 8 { ok &= buf[n] == plain[n]; n += 1; }
        ok &= d.index == wi && d.previous_value == wp && d.key == key;
        if len == 0 { ok &= e.index == idx && e.previous_value == prev && d.index == idx && d.previous_value == prev; }
        kani::cover!(len == 8);
        kani::cover!(len == 0);
        assert!(ok, "C08 vanilla encrypt/decrypt follow the recurrence from any state (calls of up to 8 bytes)");
    }

    /// C08/C11 (complete): typed header helpers = raw operation on big-endian size | little-endian opcode; the peer decodes them
    #[kani::proof]
    #[kani::unwind(10)]
    pub fn c11_tbc_headers() {
        let key: [u8; 20] = kani::any();
        let idx: u8 = kani::any(); kani::assume(idx < 20);
        let prev: u8 = kani::any();
        let size: u16 = kani::any();
        let op16: u16 = kani::any();
        let op32: u32 = kani::any();
        let client: bool = kani::any();
        let mut c = HeaderCrypto { decrypt: DecrypterHalf { key: key, index: idx, previous_value: prev },
                                   encrypt: EncrypterHalf { key: key, index: idx, previous_value: prev } };
        let mut raw = [0u8; 8];
        let mut ok = true;
        if client {
            let h = c.encrypt_client_header(size, op32);
            raw[0] = (size >> 8) as u8; raw[1] = size as u8;
            raw[2] = op32 as u8; raw[3] = (op32 >> 8) as u8; raw[4] = (op32 >> 16) as u8; raw[5] = (op32 >> 24) as u8;
            let (wi, wp) = ref_enc(&key, idx, prev, &mut raw, 6);
            let mut n = 0;
            while n < 6 { ok &= h[n] == raw[n]; n += 1; }
            ok &= c.encrypt.index == wi && c.encrypt.previous_value == wp;
            ok &= c.decrypt.index == idx && c.decrypt.previous_value == prev;   // C12 frame
            let back = c.decrypt_client_header(h);
            ok &= back.size == size && back.opcode == op32;
            ok &= c.decrypt.index == wi && c.decrypt.previous_value == wp;
        } else {
            let h = c.encrypt_server_header(size, op16);
            raw[0] = (size >> 8) as u8; raw[1] = size as u8; raw[2] = op16 as u8; raw[3] = (op16 >> 8) as u8;
            let (wi, wp) = ref_enc(&key, idx, prev, &mut raw, 4);
            let mut n = 0;
            while n < 4 { ok &= h[n] == raw[n]; n += 1; }
            ok &= c.encrypt.index == wi && c.encrypt.previous_value == wp;
            ok &= c.decrypt.index == idx && c.decrypt.previous_value == prev;
            let back = c.decrypt_server_header(h);
            ok &= back.size == size && back.opcode == op16;
            ok &= c.decrypt.index == wi && c.decrypt.previous_value == wp;
        }
        kani::cover!(client);
        kani::cover!(!client);
        assert!(ok, "C11 vanilla typed header helpers equal the raw operation on the wire layout and round-trip");
    }
}
