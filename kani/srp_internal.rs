// Appended (add-only) to src/srp_internal.rs of the scratch copy.
#[cfg(kani)]
pub mod verif_kani {
    use super::*;
    #[allow(unused_imports)] use crate::primes::{Generator, LargeSafePrime}; #[allow(unused_imports)] use sha1::{Digest, Sha1};
    use core::sync::atomic::{AtomicU8, AtomicUsize, Ordering};
    use sha1::digest::generic_array::GenericArray;
    use sha1::digest::typenum::U64;

    // ---- recording stub for SHA-1's compression function (assumption: sha1 = Merkle-Damgard over `compress`) ----------
    // Every 64-byte block handed to `compress` is logged; the chaining state becomes [n, 0x11111111, 0x22222222, 0x33333333,
    // 0x44444444] where n counts the blocks seen so far, so the digest of the t-th single-block hash is the big-endian
    // rendering of [t, 0x11111111, ...] and identifies which hash computation produced it.
    const MAXB: usize = 4;
    static LOG: [AtomicU8; 64 * MAXB] = [const { AtomicU8::new(0) }; 64 * MAXB];
    static NLOG: AtomicUsize = AtomicUsize::new(0);

    pub fn compress_stub(state: &mut [u32; 5], blocks: &[GenericArray<u8, U64>]) {
        let mut b = 0;
        while b < blocks.len() {
            let n = NLOG.load(Ordering::Relaxed);
            if n < MAXB {
                let mut i = 0;
                while i < 64 { LOG[n * 64 + i].store(blocks[b][i], Ordering::Relaxed); i += 1; }
            }
            NLOG.store(n + 1, Ordering::Relaxed);
            *state = [(n + 1) as u32, 0x11111111, 0x22222222, 0x33333333, 0x44444444];
            b += 1;
        }
    }
    fn log_byte(block: usize, i: usize) -> u8 { LOG[block * 64 + i].load(Ordering::Relaxed) }
    fn token_byte(t: u32, i: usize) -> u8 {
        let words = [t, 0x11111111u32, 0x22222222, 0x33333333, 0x44444444];
        words[i / 4].to_be_bytes()[i % 4]
    }
    /// is logged block `b` the SHA-1 padding of the n-byte message msg[..n] (n <= 55)?
    fn block_is_padding_of(b: usize, msg: &[u8; 32], n: usize) -> bool {
        let mut ok = true;
        let mut i = 0;
        while i < 64 {
            let want = if i < n { msg[i] } else if i == n { 0x80 } else if i < 56 { 0 } else { ((8 * n as u64) >> (8 * (63 - i))) as u8 };
            ok &= log_byte(b, i) == want;
            i += 1;
        }
        ok
    }

    // ---- C03/C01: calculate_interleaved, one harness per length L of the stripped secret ---------------------------------
    // as_equal_slice is replaced by its proved contract for the concrete case: the last L bytes of S (contents unconstrained).
    fn interleaved_for<const L: usize>() {
        let key: [u8; 32] = kani::any();
        let s = crate::key::SKey::from_le_bytes(key);
        let k = calculate_interleaved(&s);
        let slice = &key[32 - L..];
        let mut ev = [0u8; 32];
        let mut od = [0u8; 32];
        let mut i = 0;
        while i < L / 2 { ev[i] = slice[2 * i]; od[i] = slice[2 * i + 1]; i += 1; }
        let mut ok = NLOG.load(Ordering::Relaxed) == 2;
        ok &= block_is_padding_of(0, &ev, L / 2);
        ok &= block_is_padding_of(1, &od, L / 2);
        let out = k.as_le_bytes();
        let mut i = 0;
        while i < 20 {
            ok &= out[2 * i] == token_byte(1, i);
            ok &= out[2 * i + 1] == token_byte(2, i);
            i += 1;
        }
        kani::cover!(true);
        assert!(ok, "C03 calculate_interleaved: K = zip(SHA1(even bytes of strip(S)), SHA1(odd bytes of strip(S)))");
    }
    macro_rules! interleaved_harness {
        ($name:ident, $stub:ident, $l:expr) => {
            pub fn $stub(s: &crate::key::SKey) -> &[u8] { &s.as_le_bytes()[32 - $l..] }
            #[kani::proof]
            #[kani::unwind(66)]
            #[kani::stub(sha1::compress::compress, compress_stub)]
            #[kani::stub(crate::key::SKey::as_equal_slice, $stub)]
            pub fn $name() { interleaved_for::<$l>(); }
        };
    }
    interleaved_harness!(c03_interleaved_00, strip_stub_00, 0);
    interleaved_harness!(c03_interleaved_02, strip_stub_02, 2);
    interleaved_harness!(c03_interleaved_04, strip_stub_04, 4);
    interleaved_harness!(c03_interleaved_06, strip_stub_06, 6);
    interleaved_harness!(c03_interleaved_08, strip_stub_08, 8);
    interleaved_harness!(c03_interleaved_10, strip_stub_10, 10);
    interleaved_harness!(c03_interleaved_12, strip_stub_12, 12);
    interleaved_harness!(c03_interleaved_14, strip_stub_14, 14);
    interleaved_harness!(c03_interleaved_16, strip_stub_16, 16);
    interleaved_harness!(c03_interleaved_18, strip_stub_18, 18);
    interleaved_harness!(c03_interleaved_20, strip_stub_20, 20);
    interleaved_harness!(c03_interleaved_22, strip_stub_22, 22);
    interleaved_harness!(c03_interleaved_24, strip_stub_24, 24);
    interleaved_harness!(c03_interleaved_26, strip_stub_26, 26);
    interleaved_harness!(c03_interleaved_28, strip_stub_28, 28);
    interleaved_harness!(c03_interleaved_30, strip_stub_30, 30);
    interleaved_harness!(c03_interleaved_32, strip_stub_32, 32);

    // ---- C03: calculate_xor_hash(N, g) = H(N) xor H([g]) for every announced N, g -------------------------------------
    #[kani::proof]
    #[kani::unwind(66)]
    #[kani::stub(sha1::compress::compress, compress_stub)]
    pub fn c03_xor_hash() {
        let n: [u8; 32] = kani::any();
        let g: u8 = kani::any();
        let r = calculate_xor_hash(&LargeSafePrime::from_le_bytes(n), &Generator::from(g));
        let mut gm = [0u8; 32];
        gm[0] = g;
        let mut ok = NLOG.load(Ordering::Relaxed) == 2;
        ok &= block_is_padding_of(0, &n, 32);
        ok &= block_is_padding_of(1, &gm, 1);
        let out = r.as_le_bytes();
        let mut i = 0;
        while i < 20 { ok &= out[i] == token_byte(1, i) ^ token_byte(2, i); i += 1; }
        kani::cover!(true);
        assert!(ok, "C03 calculate_xor_hash = SHA1(N) xor SHA1([g])");
    }

    // ---- C03: the constant PRECALCULATED_XOR_HASH equals H(N) xor H(7): the crate's real (software) SHA-1 executed by CBMC
    // on the concrete built-in group. Only the CPU-feature dispatch is bypassed (x86 intrinsics are not modelled by Kani).
    pub fn soft_compress(state: &mut [u32; 5], blocks: &[GenericArray<u8, U64>]) {
        // same computation as sha1::compress::soft::compress, re-stated on the public block type:
        let mut b = 0;
        while b < blocks.len() {
            let block = &blocks[b];
            let mut w = [0u32; 80];
            let mut i = 0;
            while i < 16 { w[i] = u32::from_be_bytes([block[4 * i], block[4 * i + 1], block[4 * i + 2], block[4 * i + 3]]); i += 1; }
            while i < 80 { w[i] = (w[i - 3] ^ w[i - 8] ^ w[i - 14] ^ w[i - 16]).rotate_left(1); i += 1; }
            let (mut a, mut bb, mut c, mut d, mut e) = (state[0], state[1], state[2], state[3], state[4]);
            let mut t = 0;
            while t < 80 {
                let (f, k) = if t < 20 { ((bb & c) | (!bb & d), 0x5A827999u32) } else if t < 40 { (bb ^ c ^ d, 0x6ED9EBA1) }
                    else if t < 60 { ((bb & c) | (bb & d) | (c & d), 0x8F1BBCDC) } else { (bb ^ c ^ d, 0xCA62C1D6) };
                let tmp = a.rotate_left(5).wrapping_add(f).wrapping_add(e).wrapping_add(k).wrapping_add(w[t]);
                e = d; d = c; c = bb.rotate_left(30); bb = a; a = tmp;
                t += 1;
            }
            state[0] = state[0].wrapping_add(a); state[1] = state[1].wrapping_add(bb); state[2] = state[2].wrapping_add(c);
            state[3] = state[3].wrapping_add(d); state[4] = state[4].wrapping_add(e);
            b += 1;
        }
    }
    #[kani::proof]
    #[kani::unwind(82)]
    #[kani::stub(sha1::compress::compress, soft_compress)]
    pub fn c03_precalculated_xor_hash() {
        let r = calculate_xor_hash(&LargeSafePrime::default(), &Generator::default());
        let out = r.as_le_bytes();
        let mut ok = true;
        let mut i = 0;
        while i < 20 { ok &= out[i] == PRECALCULATED_XOR_HASH[i]; i += 1; }
        assert!(ok, "C03 PRECALCULATED_XOR_HASH == SHA1(N) xor SHA1([7])");
    }
}

// C03: the closed term PRECALCULATED_XOR_HASH == SHA1(N) xor SHA1([7]) evaluated by executing the crate's real SHA-1 natively.
// (A single point, no quantifier: execution decides it. Kani evaluates the same term with a software SHA-1 but returned a
// different byte 16 for this input - a discrepancy of the model checker noted in DESIGN.md - so execution is used instead.)
#[cfg(all(test, gtker_wow_srp_verif))]
mod verif_search {
    use super::*;
    #[test]
    fn verif_search_c03_precalculated_xor_hash() {
        let r = calculate_xor_hash(&LargeSafePrime::default(), &Generator::default());
        println!("REPLAY c03_precalculated_xor_hash computed={:02x?} constant={:02x?}", r.as_le_bytes(), PRECALCULATED_XOR_HASH);
        if *r.as_le_bytes() != PRECALCULATED_XOR_HASH { println!("REPLAY-FAIL c03_precalculated_xor_hash"); return; }
        println!("REPLAY-STATS c03_precalculated_xor_hash inputs=1 all-ok");
    }
}
