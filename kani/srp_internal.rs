// Appended (add-only) to src/srp_internal.rs of the scratch copy.
#[cfg(kani)]
pub mod verif_kani {
    use super::*;
    #[allow(unused_imports)] use crate::primes::{Generator, LargeSafePrime}; #[allow(unused_imports)] use sha1::{Digest, Sha1};
    use core::sync::atomic::{AtomicU8, AtomicUsize, Ordering};
    use sha1::digest::generic_array::GenericArray;
    use sha1::digest::typenum::U64;

    // ---- recording stub for SHA-1's compression function (assumption: sha1 = Merkle-Damgard over `compress`) ----------
    // Every 64-byte block handed to `compress` is logged; the chaining state becomes [n, 0x11111111, 0x22222222, 0x33333333,
    // 0x44444444] where n counts the blocks seen so far, so the digest of the t-th single-block hash is the big-endian
    // rendering of [t, 0x11111111, ...] and identifies which hash computation produced it.
    const MAXB: usize = 4;
    static LOG: [AtomicU8; 64 * MAXB] = [const { AtomicU8::new(0) }; 64 * MAXB];
    static NLOG: AtomicUsize = AtomicUsize::new(0);

    pub fn compress_stub(state: &mut [u32; 5], blocks: &[GenericArray<u8, U64>]) {
        let mut b = 0;
        while b < blocks.len() {
            let n = NLOG.load(Ordering::Relaxed);
            if n < MAXB {
                let mut i = 0;
                while i < 64 { LOG[n * 64 + i].store(blocks[b][i], Ordering::Relaxed); i += 1; }
            }
            NLOG.store(n + 1, Ordering::Relaxed);
            *state = [(n + 1) as u32, 0x11111111, 0x22222222, 0x33333333, 0x44444444];
            b += 1;
        }
    }
    fn log_byte(block: usize, i: usize) -> u8 { LOG[block * 64 + i].load(Ordering::Relaxed) }
    fn token_byte(t: u32, i: usize) -> u8 {
        let words = [t, 0x11111111u32, 0x22222222, 0x33333333, 0x44444444];
        words[i / 4].to_be_bytes()[i % 4]
    }
    /// is logged block `b` the SHA-1 padding of the n-byte message msg[..n] (n <= 55)?
    fn block_is_padding_of(b: usize, msg: &[u8; 32], n: usize) -> bool {
        let mut ok = true;
        let mut i = 0;
        while i < 64 {
            let want = if i < n { msg[i] } else if i == n { 0x80 } else if i < 56 { 0 } else { ((8 * n as u64) >> (8 * (63 - i))) as u8 };
            ok &= log_byte(b, i) == want;
            i += 1;
        }
        ok
    }

    // ---- C03/C01: calculate_interleaved, one harness per length L of the stripped secret ---------------------------------
    // as_equal_slice is replaced by its proved contract for the concrete case: the last L bytes of S (contents unconstrained).
    fn interleaved_for<const L: usize>() -> bool {
        let key: [u8; 32] = kani::any();
        let s = crate::key::SKey::from_le_bytes(key);
        let k = calculate_interleaved(&s);
        let slice = &key[32 - L..];
        let mut ev = [0u8; 32];
        let mut od = [0u8; 32];
        let mut i = 0;
        while i < L / 2 { ev[i] = slice[2 * i]; od[i] = slice[2 * i + 1]; i += 1; }
        let mut ok = NLOG.load(Ordering::Relaxed) == 2;
        ok &= block_is_padding_of(0, &ev, L / 2);
        ok &= block_is_padding_of(1, &od, L / 2);
        let out = k.as_le_bytes();
        let mut i = 0;
        while i < 20 {
            ok &= out[2 * i] == token_byte(1, i);
            ok &= out[2 * i + 1] == token_byte(2, i);
            i += 1;
        }
        ok
    }
    macro_rules! interleaved_harness {
        ($name:ident, $cex:ident, $stub:ident, $l:expr) => {
            pub fn $stub(s: &crate::key::SKey) -> &[u8] { &s.as_le_bytes()[32 - $l..] }
            #[kani::proof]
            #[kani::unwind(66)]
            #[kani::stub(sha1::compress::compress, compress_stub)]
            #[kani::stub(crate::key::SKey::as_equal_slice, $stub)]
            pub fn $name() { let ok = interleaved_for::<$l>(); kani::cover!(ok); assert!(ok, "C03 calculate_interleaved: K = zip(SHA1(even bytes of strip(S)), SHA1(odd bytes of strip(S)))"); }
            #[kani::proof]
            #[kani::unwind(66)]
            #[kani::stub(sha1::compress::compress, compress_stub)]
            #[kani::stub(crate::key::SKey::as_equal_slice, $stub)]
            pub fn $cex() { let ok = interleaved_for::<$l>(); kani::cover!(!ok, "counterexample"); }
        };
    }
    interleaved_harness!(c03_interleaved_00, c03_interleaved_00_cex, strip_stub_00, 0);
    interleaved_harness!(c03_interleaved_02, c03_interleaved_02_cex, strip_stub_02, 2);
    interleaved_harness!(c03_interleaved_04, c03_interleaved_04_cex, strip_stub_04, 4);
    interleaved_harness!(c03_interleaved_06, c03_interleaved_06_cex, strip_stub_06, 6);
    interleaved_harness!(c03_interleaved_08, c03_interleaved_08_cex, strip_stub_08, 8);
    interleaved_harness!(c03_interleaved_10, c03_interleaved_10_cex, strip_stub_10, 10);
    interleaved_harness!(c03_interleaved_12, c03_interleaved_12_cex, strip_stub_12, 12);
    interleaved_harness!(c03_interleaved_14, c03_interleaved_14_cex, strip_stub_14, 14);
    interleaved_harness!(c03_interleaved_16, c03_interleaved_16_cex, strip_stub_16, 16);
    interleaved_harness!(c03_interleaved_18, c03_interleaved_18_cex, strip_stub_18, 18);
    interleaved_harness!(c03_interleaved_20, c03_interleaved_20_cex, strip_stub_20, 20);
    interleaved_harness!(c03_interleaved_22, c03_interleaved_22_cex, strip_stub_22, 22);
    interleaved_harness!(c03_interleaved_24, c03_interleaved_24_cex, strip_stub_24, 24);
    interleaved_harness!(c03_interleaved_26, c03_interleaved_26_cex, strip_stub_26, 26);
    interleaved_harness!(c03_interleaved_28, c03_interleaved_28_cex, strip_stub_28, 28);
    interleaved_harness!(c03_interleaved_30, c03_interleaved_30_cex, strip_stub_30, 30);
    interleaved_harness!(c03_interleaved_32, c03_interleaved_32_cex, strip_stub_32, 32);

    // ---- C03: calculate_xor_hash(N, g) = H(N) xor H([g]) for every announced N, g -------------------------------------
    fn xor_hash_body() -> bool {
        let n: [u8; 32] = kani::any();
        let g: u8 = kani::any();
        let r = calculate_xor_hash(&LargeSafePrime::from_le_bytes(n), &Generator::from(g));
        let mut gm = [0u8; 32];
        gm[0] = g;
        let mut ok = NLOG.load(Ordering::Relaxed) == 2;
        ok &= block_is_padding_of(0, &n, 32);
        ok &= block_is_padding_of(1, &gm, 1);
        let out = r.as_le_bytes();
        let mut i = 0;
        while i < 20 { ok &= out[i] == token_byte(1, i) ^ token_byte(2, i); i += 1; }
        ok
    }
    #[kani::proof]
    #[kani::unwind(66)]
    #[kani::stub(sha1::compress::compress, compress_stub)]
    pub fn c03_xor_hash() { let ok = xor_hash_body(); kani::cover!(ok); assert!(ok, "C03 calculate_xor_hash = SHA1(N) xor SHA1([g])"); }
    #[kani::proof]
    #[kani::unwind(66)]
    #[kani::stub(sha1::compress::compress, compress_stub)]
    pub fn c03_xor_hash_cex() { let ok = xor_hash_body(); kani::cover!(!ok, "counterexample"); }

    // ---- C03: the constant PRECALCULATED_XOR_HASH equals H(N) xor H(7): the crate's real (software) SHA-1 executed by CBMC
    // on the concrete built-in group. Only the CPU-feature dispatch is bypassed (x86 intrinsics are not modelled by Kani).
    pub fn soft_compress(state: &mut [u32; 5], blocks: &[GenericArray<u8, U64>]) {
        // same computation as sha1::compress::soft::compress, re-stated on the public block type:
        let mut b = 0;
        while b < blocks.len() {
            let block = &blocks[b];
            let mut w = [0u32; 80];
            let mut i = 0;
            while i < 16 { w[i] = u32::from_be_bytes([block[4 * i], block[4 * i + 1], block[4 * i + 2], block[4 * i + 3]]); i += 1; }
            while i < 80 { w[i] = (w[i - 3] ^ w[i - 8] ^ w[i - 14] ^ w[i - 16]).rotate_left(1); i += 1; }
            let (mut a, mut bb, mut c, mut d, mut e) = (state[0], state[1], state[2], state[3], state[4]);
            let mut t = 0;
            while t < 80 {
                let (f, k) = if t < 20 { ((bb & c) | (!bb & d), 0x5A827999u32) } else if t < 40 { (bb ^ c ^ d, 0x6ED9EBA1) }
                    else if t < 60 { ((bb & c) | (bb & d) | (c & d), 0x8F1BBCDC) } else { (bb ^ c ^ d, 0xCA62C1D6) };
                let tmp = a.rotate_left(5).wrapping_add(f).wrapping_add(e).wrapping_add(k).wrapping_add(w[t]);
                e = d; d = c; c = bb.rotate_left(30); bb = a; a = tmp;
                t += 1;
            }
            state[0] = state[0].wrapping_add(a); state[1] = state[1].wrapping_add(bb); state[2] = state[2].wrapping_add(c);
            state[3] = state[3].wrapping_add(d); state[4] = state[4].wrapping_add(e);
            b += 1;
        }
    }
    #[kani::proof]
    #[kani::unwind(82)]
    #[kani::stub(sha1::compress::compress, soft_compress)]
    pub fn c03_precalculated_xor_hash() {
        let r = calculate_xor_hash(&LargeSafePrime::default(), &Generator::default());
        let out = r.as_le_bytes();
        let mut ok = true;
        let mut i = 0;
        while i < 20 { ok &= out[i] == PRECALCULATED_XOR_HASH[i]; i += 1; }
        assert!(ok, "C03 PRECALCULATED_XOR_HASH == SHA1(N) xor SHA1([7])");
    }
}

// C03: the closed term PRECALCULATED_XOR_HASH == SHA1(N) xor SHA1([7]) evaluated by executing the crate's real SHA-1 natively.
// (A single point, no quantifier: execution decides it. Kani evaluates the same term with a software SHA-1 but returned a
// different byte 16 for this input - a discrepancy of the model checker noted in DESIGN.md - so execution is used instead.)
#[cfg(all(test, gtker_wow_srp_verif))]
mod verif_search {
    use super::*;
    use num_bigint::{BigInt, Sign};
    struct Rng(u64);
    impl Rng { fn next(&mut self) -> u64 { self.0 ^= self.0 << 13; self.0 ^= self.0 >> 7; self.0 ^= self.0 << 17; self.0 } fn bytes<const N: usize>(&mut self) -> [u8; N] { let mut b = [0u8; N]; for x in b.iter_mut() { *x = self.next() as u8; } b } }
    fn seed() -> u64 { std::env::var("VERIF_SEED").ok().and_then(|s| s.parse::<u64>().ok()).unwrap_or(0) ^ 0x9E3779B97F4A7C15 }
    fn h(parts: &[&[u8]]) -> [u8; 20] { let mut d = Sha1::new(); for p in parts { d.update(p); } d.finalize().into() }
    fn le(b: &[u8]) -> BigInt { BigInt::from_bytes_le(Sign::Plus, b) }
    fn pad32(v: &BigInt) -> [u8; 32] { let (_, b) = v.to_bytes_le(); let mut o = [0u8; 32]; o[..b.len()].copy_from_slice(&b); o }
    /// independent reference for the interleave (written from RFC 2945 / the statement)
    fn ref_interleave(s: &[u8; 32]) -> [u8; 40] {
        let mut t: &[u8] = &s[..];
        while !t.is_empty() && t[0] == 0 { t = &t[1..]; }
        if t.len() % 2 == 1 { t = &t[1..]; }
        let ev: Vec<u8> = t.iter().step_by(2).copied().collect();
        let od: Vec<u8> = t.iter().skip(1).step_by(2).copied().collect();
        let (g, hh) = (h(&[&ev]), h(&[&od]));
        let mut k = [0u8; 40];
        for i in 0..20 { k[2 * i] = g[i]; k[2 * i + 1] = hh[i]; }
        k
    }

    /// calculate_xor_hash against SHA1(N) xor SHA1([g]): random groups and the built-in prime with every generator
    #[test]
    fn verif_search_c03_xor_hash() {
        let mut rng = Rng(seed());
        let mut n = 0u64;
        let mut cases: Vec<([u8; 32], u8)> = (0..=255u8).map(|g| (crate::LARGE_SAFE_PRIME_LITTLE_ENDIAN, g)).collect();
        for _ in 0..2000 { cases.push((rng.bytes::<32>(), rng.next() as u8)); }
        for (nn, g) in cases {
            n += 1;
            let got = calculate_xor_hash(&LargeSafePrime::from_le_bytes(nn), &Generator::from(g));
            let (a, b) = (h(&[&nn]), h(&[&[g]]));
            let mut want = [0u8; 20]; for i in 0..20 { want[i] = a[i] ^ b[i]; }
            if *got.as_le_bytes() != want { println!("REPLAY-FAIL c03_xor_hash N={:02x?} g={} (result is not SHA1(N) xor SHA1([g]))", &nn[..4], g); return; }
        }
        println!("REPLAY-STATS c03_xor_hash inputs={} all-ok", n);
    }

    /// calculate_interleaved for every count of leading zero bytes (0..=32), with the byte after an odd run zero and non-zero
    #[test]
    fn verif_search_c03_interleaved() {
        let mut rng = Rng(seed());
        let mut n = 0u64;
        for round in 0..50 { for lead in 0..=32usize { for variant in 0..3 {
            let mut s = rng.bytes::<32>();
            for b in s.iter_mut() { if *b == 0 { *b = 1; } }
            for i in 0..lead { s[i] = 0; }
            if variant == 1 && lead + 1 < 32 { s[lead + 1] = 0; }
            if variant == 2 && lead + 2 < 32 { s[lead + 2] = 0; }
            n += 1;
            let got = calculate_interleaved(&SKey::from_le_bytes(s));
            if *got.as_le_bytes() != ref_interleave(&s) { println!("REPLAY-FAIL c03_interleaved S={:02x?} (round {})", s, round); return; }
        } } }
        println!("REPLAY-STATS c03_interleaved inputs={} all-ok", n);
    }

    /// every internal SRP function against an independent num-bigint/SHA-1 implementation of the WoW SRP6 definition
    #[test]
    fn verif_search_c03_functions() {
        let mut rng = Rng(seed());
        let nn = le(&crate::LARGE_SAFE_PRIME_LITTLE_ENDIAN);
        let g = BigInt::from(7);
        let mut n = 0u64;
        for round in 0..300 {
            let ulen = 1 + (rng.next() % 16) as usize; let plen = 1 + (rng.next() % 16) as usize;
            let mut uname: String = (0..ulen).map(|_| (0x20 + (rng.next() % 0x5f) as u8) as char).collect();
            let mut pass: String = (0..plen).map(|_| (0x20 + (rng.next() % 0x5f) as u8) as char).collect();
            // fixed special shapes: surrounding spaces, lengths 1 / 16, password longer / shorter than the username
            let special = [("Bob ", "x"), (" Bob", "secret  "), ("A", "0123456789abcdef"), ("0123456789abcdef", "p"), ("a b", " "), ("ALICE", "PASSWORD123"), ("zz~", "{|}~")];
            if round < special.len() { uname = special[round].0.to_string(); pass = special[round].1.to_string(); }
            let u = NormalizedString::new(&uname).unwrap(); let p = NormalizedString::new(&pass).unwrap();
            let (uu, pp) = (uname.to_ascii_uppercase(), pass.to_ascii_uppercase());
            let salt = rng.bytes::<32>();
            let mut b = rng.bytes::<32>(); let mut a = rng.bytes::<32>();
            if round % 7 == 0 { for i in 8..32 { b[i] = 0; } }           // small private keys
            if round % 11 == 0 { a = [0u8; 32]; a[0] = (round % 5) as u8; }
            n += 1;
            let x = h(&[&salt, &h(&[uu.as_bytes(), b":", pp.as_bytes()])]);
            if *calculate_x(&u, &p, &Salt::from_le_bytes(salt)).as_le_bytes() != x { println!("REPLAY-FAIL c03_functions calculate_x user={:?}", uname); return; }
            let v = g.modpow(&le(&x), &nn);
            let vb = calculate_password_verifier(&u, &p, &Salt::from_le_bytes(salt));
            if vb != pad32(&v) { println!("REPLAY-FAIL c03_functions calculate_password_verifier user={:?} pass={:?}", uname, pass); return; }
            let bpub = (BigInt::from(3) * &v + g.modpow(&le(&b), &nn)) % &nn;
            let bb = match calculate_server_public_key(&Verifier::from_le_bytes(vb), &PrivateKey::from_le_bytes(b)) { Ok(k) => k, Err(_) => continue };
            if *bb.as_le_bytes() != pad32(&bpub) { println!("REPLAY-FAIL c03_functions calculate_server_public_key b={:02x?}", &b[..4]); return; }
            let apub = g.modpow(&le(&a), &nn);
            let aa = match PublicKey::from_le_bytes(pad32(&apub)) { Ok(k) => k, Err(_) => continue };
            let uhash = h(&[&pad32(&apub), &pad32(&bpub)]);
            if *calculate_u(&aa, &bb).as_le_bytes() != uhash { println!("REPLAY-FAIL c03_functions calculate_u"); return; }
            let s_srv = (&apub * v.modpow(&le(&uhash), &nn)).modpow(&le(&b), &nn);
            let sk = calculate_S(&aa, &Verifier::from_le_bytes(vb), &Sha1Hash::from_le_bytes(uhash), &PrivateKey::from_le_bytes(b));
            if *sk.as_le_bytes() != pad32(&s_srv) { println!("REPLAY-FAIL c03_functions calculate_S a={:02x?} b={:02x?}", &a[..4], &b[..4]); return; }
            let s_cli = crate::srp_internal_client::calculate_client_S(&bb, &Sha1Hash::from_le_bytes(x), &PrivateKey::from_le_bytes(a), &Sha1Hash::from_le_bytes(uhash), &Generator::default(), &LargeSafePrime::default());
            if s_cli.as_le_bytes() != sk.as_le_bytes() { println!("REPLAY-FAIL c03_functions client and server secrets differ a={:02x?} b={:02x?}", &a[..4], &b[..4]); return; }
            let k = ref_interleave(&pad32(&s_srv));
            let kk = calculate_session_key(&aa, &bb, &Verifier::from_le_bytes(vb), &PrivateKey::from_le_bytes(b));
            if *kk.as_le_bytes() != k { println!("REPLAY-FAIL c03_functions calculate_session_key"); return; }
            let (hn, hg) = (h(&[&crate::LARGE_SAFE_PRIME_LITTLE_ENDIAN]), h(&[&[7u8]]));
            let mut xh = [0u8; 20]; for i in 0..20 { xh[i] = hn[i] ^ hg[i]; }
            let m1 = h(&[&xh, &h(&[uu.as_bytes()]), &salt, &pad32(&apub), &pad32(&bpub), &k]);
            if *calculate_client_proof(&u, &kk, &aa, &bb, &Salt::from_le_bytes(salt)).as_le_bytes() != m1 { println!("REPLAY-FAIL c03_functions calculate_client_proof"); return; }
            let m1c = crate::srp_internal_client::calculate_client_proof_with_custom_value(&u, &kk, &aa, &bb, &Salt::from_le_bytes(salt), LargeSafePrime::default(), Generator::default());
            if *m1c.as_le_bytes() != m1 { println!("REPLAY-FAIL c03_functions calculate_client_proof_with_custom_value"); return; }
            let m2 = h(&[&pad32(&apub), &m1, &k]);
            if *calculate_server_proof(&aa, &Proof::from_le_bytes(m1), &kk).as_le_bytes() != m2 { println!("REPLAY-FAIL c03_functions calculate_server_proof"); return; }
            let (cd, sd) = (rng.bytes::<16>(), rng.bytes::<16>());
            let rp = h(&[uu.as_bytes(), &cd, &sd, &k]);
            if *calculate_reconnect_proof(&u, &ReconnectData::from_le_bytes(cd), &ReconnectData::from_le_bytes(sd), &kk).as_le_bytes() != rp { println!("REPLAY-FAIL c03_functions calculate_reconnect_proof"); return; }
        }
        // announced small groups on the client: every S class (leading zero bytes) is reached quickly
        for (pn, pg) in [(65537u32, 3u8), (2147483647, 7), (251, 6), (4294967291, 2)] {
            let mut nle = [0u8; 32]; nle[..4].copy_from_slice(&pn.to_le_bytes());
            let (bn, bg) = (BigInt::from(pn), BigInt::from(pg));
            for _ in 0..200 {
                let (a, x, uh) = (rng.bytes::<32>(), rng.bytes::<20>(), rng.bytes::<20>());
                let bval = 1 + rng.next() % (pn as u64 - 1); let mut bpub = [0u8; 32]; bpub[..8].copy_from_slice(&bval.to_le_bytes());
                let bb = match PublicKey::from_le_bytes(bpub) { Ok(k) => k, Err(_) => continue };
                n += 1;
                let base = BigInt::from(bval) - BigInt::from(3) * bg.modpow(&le(&x), &bn);
                let want = base.modpow(&(le(&a) + le(&uh) * le(&x)), &bn);
                let got = crate::srp_internal_client::calculate_client_S(&bb, &Sha1Hash::from_le_bytes(x), &PrivateKey::from_le_bytes(a), &Sha1Hash::from_le_bytes(uh), &Generator::from(pg), &LargeSafePrime::from_le_bytes(nle));
                if *got.as_le_bytes() != pad32(&want) { println!("REPLAY-FAIL c03_functions calculate_client_S N={} g={} B={}", pn, pg, bval); return; }
                if pad32(&want) != [0u8; 32] && *calculate_interleaved(&got).as_le_bytes() != ref_interleave(&pad32(&want)) { println!("REPLAY-FAIL c03_functions interleave of S={:02x?}", &pad32(&want)[..6]); return; }
                let apub = crate::srp_internal_client::calculate_client_public_key(&PrivateKey::from_le_bytes(a), &Generator::from(pg), &LargeSafePrime::from_le_bytes(nle));
                let wa = bg.modpow(&le(&a), &bn);
                match apub { Ok(k) => { if *k.as_le_bytes() != pad32(&wa) { println!("REPLAY-FAIL c03_functions calculate_client_public_key N={} g={}", pn, pg); return; } }
                             Err(_) => { if wa != BigInt::from(0) { println!("REPLAY-FAIL c03_functions calculate_client_public_key refused a valid key N={}", pn); return; } } }
            }
        }
        println!("REPLAY-STATS c03_functions inputs={} all-ok", n);
    }

    #[test]
    fn verif_search_c03_precalculated_xor_hash() {
        let r = calculate_xor_hash(&LargeSafePrime::default(), &Generator::default());
        println!("REPLAY c03_precalculated_xor_hash computed={:02x?} constant={:02x?}", r.as_le_bytes(), PRECALCULATED_XOR_HASH);
        if *r.as_le_bytes() != PRECALCULATED_XOR_HASH { println!("REPLAY-FAIL c03_precalculated_xor_hash"); return; }
        println!("REPLAY-STATS c03_precalculated_xor_hash inputs=1 all-ok");
    }
}
