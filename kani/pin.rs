// Appended (add-only) to src/pin.rs of the scratch copy.
#[cfg(kani)]
pub mod verif_kani {
    use super::*;
    #[allow(unused_imports)] use sha1::{Digest, Sha1};
    use core::sync::atomic::{AtomicU8, AtomicUsize, Ordering};
    use sha1::digest::generic_array::GenericArray;
    use sha1::digest::typenum::U64;

    /// C16 (complete, all 2^32 seeds): the keypad layout is a permutation of 0..9 (this is what makes the `.unwrap()` in the
    /// position lookup of calculate_hash safe)
    #[kani::proof]
    #[kani::unwind(12)]
    pub fn c16_remap_perm() {
        let seed: u32 = kani::any();
        let g = remap_pin_grid(seed);
        let mut seen = [false; 10];
        let mut ok = true;
        let mut i = 0;
        while i < 10 { if g[i] < 10 { seen[g[i] as usize] = true; } else { ok = false; } i += 1; }
        i = 0;
        while i < 10 { ok &= seen[i]; i += 1; }
        assert!(ok, "C16 remap_pin_grid(seed) is a permutation of 0..9");
    }

    /// C16 (complete): the layout is a function of the sequential remainders r_k = s_k mod (10-k), s_{k+1} = s_k div (10-k) only.
    /// (Verus lemma_rem_mod: those remainders depend on the seed modulo 10! only.)
    #[kani::proof]
    #[kani::unwind(12)]
    #[kani::solver(kissat)]
    pub fn c16_remap_by_digits() {
        let s1: u32 = kani::any();
        let s2: u32 = kani::any();
        let (mut a, mut b) = (s1, s2);
        let mut k = 0u32;
        while k < 10 {
            let m = 10 - k;
            kani::assume(a % m == b % m);
            a /= m; b /= m;
            k += 1;
        }
        let g1 = remap_pin_grid(s1);
        let g2 = remap_pin_grid(s2);
        let mut ok = true;
        let mut i = 0;
        while i < 10 { ok &= g1[i] == g2[i]; i += 1; }
        kani::cover!(s1 != s2);
        assert!(ok, "C16 equal sequential remainders give equal layouts");
    }

    // ---- calculate_hash: composition, with both callees replaced by their proved contracts and SHA-1's compress recorded ----
    const MAXB: usize = 4;
    static LOG: [AtomicU8; 64 * MAXB] = [const { AtomicU8::new(0) }; 64 * MAXB];
    static NLOG: AtomicUsize = AtomicUsize::new(0);
    pub fn compress_stub(state: &mut [u32; 5], blocks: &[GenericArray<u8, U64>]) {
        let mut b = 0;
        while b < blocks.len() {
            let n = NLOG.load(Ordering::Relaxed);
            if n < MAXB { let mut i = 0; while i < 64 { LOG[n * 64 + i].store(blocks[b][i], Ordering::Relaxed); i += 1; } }
            NLOG.store(n + 1, Ordering::Relaxed);
            *state = [(n + 1) as u32, 0x11111111, 0x22222222, 0x33333333, 0x44444444];
            b += 1;
        }
    }
    fn log_byte(block: usize, i: usize) -> u8 { LOG[block * 64 + i].load(Ordering::Relaxed) }
    fn token_byte(t: u32, i: usize) -> u8 { [t, 0x11111111u32, 0x22222222, 0x33333333, 0x44444444][i / 4].to_be_bytes()[i % 4] }
    fn block_is_padding_of(b: usize, msg: &[u8; 40], n: usize) -> bool {
        let mut ok = true;
        let mut i = 0;
        while i < 64 {
            let want = if i < n { msg[i] } else if i == n { 0x80 } else if i < 56 { 0 } else { ((8 * n as u64) >> (8 * (63 - i))) as u8 };
            ok &= log_byte(b, i) == want;
            i += 1;
        }
        ok
    }
    static DIGITS: [AtomicU8; 10] = [const { AtomicU8::new(0) }; 10];
    static GRID: [AtomicU8; 10] = [const { AtomicU8::new(0) }; 10];

    /// contract of remap_pin_grid (c16_remap_perm): some permutation of 0..9
    fn remap_stub(_seed: u32) -> [u8; 10] {
        let mut g = [0u8; 10]; let mut i = 0; while i < 10 { g[i] = GRID[i].load(Ordering::Relaxed); i += 1; } g
    }
    fn hash_for<const N: usize>() -> bool {
        // an arbitrary permutation and arbitrary N decimal digits, fixed before the call
        let grid: [u8; 10] = kani::any();
        let mut seen = [false; 10];
        let mut i = 0;
        while i < 10 { kani::assume(grid[i] < 10); seen[grid[i] as usize] = true; i += 1; }
        i = 0;
        while i < 10 { kani::assume(seen[i]); GRID[i].store(grid[i], Ordering::Relaxed); i += 1; }
        let digits: [u8; 10] = kani::any();
        i = 0;
        while i < 10 { kani::assume(digits[i] < 10); DIGITS[i].store(digits[i], Ordering::Relaxed); i += 1; }
        let ss: [u8; 16] = kani::any();
        let cs: [u8; 16] = kani::any();
        let r = calculate_hash(kani::any(), kani::any(), &ss, &cs);
        if N < 4 { return r.is_none(); }
        let h = match r { Some(h) => h, None => return false };
        // expected messages
        let mut m0 = [0u8; 40];
        let mut m1 = [0u8; 40];
        i = 0;
        while i < 16 { m0[i] = ss[i]; m1[i] = cs[i]; i += 1; }
        i = 0;
        while i < N {
            // position of digit i in the layout
            let mut pos = 0u8; let mut k = 0;
            while k < 10 { if grid[k] == digits[i] { pos = k as u8; } k += 1; }
            m0[16 + i] = pos + 0x30;
            i += 1;
        }
        i = 0;
        while i < 20 { m1[16 + i] = token_byte(1, i); i += 1; }
        let mut ok = NLOG.load(Ordering::Relaxed) == 2;
        ok &= block_is_padding_of(0, &m0, 16 + N);
        ok &= block_is_padding_of(1, &m1, 36);
        i = 0;
        while i < 20 { ok &= h[i] == token_byte(2, i); i += 1; }
        ok
    }
    macro_rules! hash_harness {
        ($name:ident, $cex:ident, $stub:ident, $n:expr) => {
            /// contract of pin_to_bytes (proved by Verus) for PINs with exactly $n digits: the first $n bytes of the buffer hold arbitrary decimal digits
            fn $stub(_pin: u32, out: &mut [u8; 10]) -> &mut [u8] {
                let mut i = 0; while i < $n { out[i] = DIGITS[i].load(Ordering::Relaxed); i += 1; }
                &mut out[0..$n]
            }
            #[kani::proof]
            #[kani::unwind(66)]
            #[kani::stub(sha1::compress::compress, compress_stub)]
            #[kani::stub(crate::pin::pin_to_bytes, $stub)]
            #[kani::stub(crate::pin::remap_pin_grid, remap_stub)]
            pub fn $name() { assert!(hash_for::<$n>(), "C16 calculate_hash = SHA1(client salt | SHA1(server salt | ASCII(position of each digit in the layout)))"); }
            #[kani::proof]
            #[kani::unwind(66)]
            #[kani::stub(sha1::compress::compress, compress_stub)]
            #[kani::stub(crate::pin::pin_to_bytes, $stub)]
            #[kani::stub(crate::pin::remap_pin_grid, remap_stub)]
            pub fn $cex() { let ok = hash_for::<$n>(); kani::cover!(!ok, "counterexample"); }
        };
    }
    hash_harness!(c16_hash_03, c16_hash_03_cex, digits_stub_03, 3);
    hash_harness!(c16_hash_04, c16_hash_04_cex, digits_stub_04, 4);
    hash_harness!(c16_hash_05, c16_hash_05_cex, digits_stub_05, 5);
    hash_harness!(c16_hash_06, c16_hash_06_cex, digits_stub_06, 6);
    hash_harness!(c16_hash_07, c16_hash_07_cex, digits_stub_07, 7);
    hash_harness!(c16_hash_08, c16_hash_08_cex, digits_stub_08, 8);
    hash_harness!(c16_hash_09, c16_hash_09_cex, digits_stub_09, 9);
    hash_harness!(c16_hash_10, c16_hash_10_cex, digits_stub_10, 10);
    hash_harness!(c16_hash_00, c16_hash_00_cex, digits_stub_00, 0);
}

// Bounded native search for C16 (counterexample finder; and the bounded stand-in for "the layout depends on the seed modulo 10! only",
// whose Kani formulation did not terminate)
#[cfg(all(test, gtker_wow_srp_verif))]
mod verif_search {
    use super::*;
    struct Rng(u64);
    impl Rng { fn next(&mut self) -> u64 { self.0 ^= self.0 << 13; self.0 ^= self.0 >> 7; self.0 ^= self.0 << 17; self.0 } }
    /// independent layout: draw without replacement from 0..9 using the seed as a mixed-radix number (radices 10, 9, .., 1)
    fn ref_layout(mut seed: u32) -> [u8; 10] {
        let mut pool: Vec<u8> = (0..10).collect();
        let mut out = [0u8; 10];
        for k in 0..10 { let m = 10 - k as u32; let r = (seed % m) as usize; seed /= m; out[k] = pool.remove(r); }
        out
    }
    fn ref_hash(pin: u32, seed: u32, ss: &[u8; 16], cs: &[u8; 16]) -> Option<[u8; 20]> {
        if pin < 1000 { return None; }
        let layout = ref_layout(seed);
        let digits: Vec<u8> = pin.to_string().bytes().map(|c| c - b'0').collect();
        let ascii: Vec<u8> = digits.iter().map(|d| layout.iter().position(|x| x == d).unwrap() as u8 + 0x30).collect();
        let inner: [u8; 20] = Sha1::new().chain_update(ss).chain_update(&ascii).finalize_fixed().into();
        Some(Sha1::new().chain_update(cs).chain_update(inner).finalize_fixed().into())
    }
    #[test]
    fn verif_search_c16_pin() {
        let seed0 = std::env::var("VERIF_SEED").ok().and_then(|s| s.parse::<u64>().ok()).unwrap_or(0) ^ 0x9E3779B97F4A7C15;
        let mut rng = Rng(seed0);
        let mut n = 0u64;
        const F: u32 = 3628800;
        let mut seeds: Vec<u32> = (0..3000).collect();
        for k in 1..=1183u32 { for d in [0u32, 1, F - 1] { seeds.push((k * F).wrapping_add(d)); seeds.push((k * F).wrapping_sub(d)); } }
        seeds.extend([u32::MAX, u32::MAX - 1, F, F - 1, F + 1]);
        for _ in 0..20000 { seeds.push(rng.next() as u32); }
        for s in seeds.iter() {
            n += 1;
            let g = remap_pin_grid(*s);
            let mut sorted = g; sorted.sort();
            if sorted != [0, 1, 2, 3, 4, 5, 6, 7, 8, 9] { println!("REPLAY-FAIL c16_pin seed={} layout {:?} is not a permutation", s, g); return; }
            if g != remap_pin_grid(*s % F) { println!("REPLAY-FAIL c16_pin seed={} layout differs from the layout of seed mod 10!", s); return; }
            if g != ref_layout(*s) { println!("REPLAY-FAIL c16_pin seed={} layout {:?} differs from drawing without replacement {:?}", s, g, ref_layout(*s)); return; }
        }
        let pins = [0u32, 1, 9, 10, 99, 100, 999, 1000, 1001, 9999, 10000, 123456, 9999999, 10000000, 999999999, 1000000000, 4294967295, 1020304050, 4000000000];
        for round in 0..400 {
            let pin = if round < pins.len() * 4 { pins[round % pins.len()] } else { rng.next() as u32 };
            let seed = rng.next() as u32;
            let mut ss = [0u8; 16]; for x in ss.iter_mut() { *x = rng.next() as u8; }
            let mut cs = [0u8; 16]; for x in cs.iter_mut() { *x = rng.next() as u8; }
            n += 1;
            let got = calculate_hash(pin, seed, &ss, &cs);
            let want = ref_hash(pin, seed, &ss, &cs);
            if got != want { println!("REPLAY-FAIL c16_pin calculate_hash pin={} seed={} got={:?} want={:?}", pin, seed, got.map(|h| h[0]), want.map(|h| h[0])); return; }
            match want {
                None => {
                    for h in [[0u8; 20], [0xffu8; 20]] { if verify_client_pin_hash(pin, seed, &ss, &cs, &h) { println!("REPLAY-FAIL c16_pin verify accepted hash {:02x?} for pin {} which has no hash", &h[..2], pin); return; } }
                }
                Some(h) => {
                    if !verify_client_pin_hash(pin, seed, &ss, &cs, &h) { println!("REPLAY-FAIL c16_pin verify rejected the correct hash pin={} seed={}", pin, seed); return; }
                    let bit = (rng.next() % 160) as usize; let mut bad = h; bad[bit / 8] ^= 1 << (bit % 8);
                    if verify_client_pin_hash(pin, seed, &ss, &cs, &bad) { println!("REPLAY-FAIL c16_pin verify accepted a hash with bit {} flipped pin={} seed={}", bit, pin, seed); return; }
                }
            }
        }
        // structured grid seeds (0, 1, k!, small multiples of k! for k = 2..=10, extremes) with PINs that use every key
        let mut sseeds: Vec<u32> = vec![0, 1, 2, u32::MAX, u32::MAX - 1, 0x8000_0000, 0x7fff_ffff];
        let mut f: u64 = 1;
        for k in 2..=12u64 { f *= k; for m in 1..=12u64 { for d in [0u64, 1] { let v = m * f + d; if v <= u32::MAX as u64 { sseeds.push(v as u32); } let w = (m * f).wrapping_sub(d); if w <= u32::MAX as u64 { sseeds.push(w as u32); } } } }
        let ss = [0x11u8; 16]; let cs = [0xa5u8; 16];
        for seed in sseeds.iter() { for pin in [1234u32, 5678, 9012, 1234567890, 2109876543] {
            n += 1;
            let got = calculate_hash(pin, *seed, &ss, &cs);
            let want = ref_hash(pin, *seed, &ss, &cs);
            if got != want { println!("REPLAY-FAIL c16_pin calculate_hash pin={} seed={} got={:?} want={:?}", pin, seed, got.map(|h| h[0]), want.map(|h| h[0])); return; }
            let h = want.unwrap();
            if !verify_client_pin_hash(pin, *seed, &ss, &cs, &h) { println!("REPLAY-FAIL c16_pin verify rejected the correct hash pin={} seed={}", pin, seed); return; }
        } }
        // the comparison covers all 20 bytes: every single-byte alteration is refused
        { let (pin, seed) = (5678u32, 362880u32); let h = ref_hash(pin, seed, &ss, &cs).unwrap();
          for pos in 0..20 { for mask in [0x01u8, 0x80, 0xff] { let mut bad = h; bad[pos] ^= mask; n += 1;
              if verify_client_pin_hash(pin, seed, &ss, &cs, &bad) { println!("REPLAY-FAIL c16_pin verify accepted a hash altered in byte {} (xor {:#04x}) pin={} seed={}", pos, mask, pin, seed); return; } } } }
        println!("REPLAY-STATS c16_pin inputs={} all-ok", n);
    }
}
