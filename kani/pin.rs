// Appended (add-only) to src/pin.rs of the scratch copy.
#[cfg(kani)]
pub mod verif_kani {
    use super::*;
    #[allow(unused_imports)] use sha1::{Digest, Sha1};
    use core::sync::atomic::{AtomicU8, AtomicUsize, Ordering};
    use sha1::digest::generic_array::GenericArray;
    use sha1::digest::typenum::U64;

    /// C16 (complete, all 2^32 seeds): the keypad layout is a permutation of 0..9 (this is what makes the `.unwrap()` in the
    /// position lookup of calculate_hash safe)
    #[kani::proof]
    #[kani::unwind(12)]
    pub fn c16_remap_perm() {
        let seed: u32 = kani::any();
        let g = remap_pin_grid(seed);
        let mut seen = [false; 10];
        let mut ok = true;
        let mut i = 0;
        while i < 10 { if g[i] < 10 { seen[g[i] as usize] = true; } else { ok = false; } i += 1; }
        i = 0;
        while i < 10 { ok &= seen[i]; i += 1; }
        assert!(ok, "C16 remap_pin_grid(seed) is a permutation of 0..9");
    }

    /// C16 (complete): the layout is a function of the sequential remainders r_k = s_k mod (10-k), s_{k+1} = s_k div (10-k) only.
    /// (Verus lemma_rem_mod: those remainders depend on the seed modulo 10! only.)
    #[kani::proof]
    #[kani::unwind(12)]
    pub fn c16_remap_by_digits() {
        let s1: u32 = kani::any();
        let s2: u32 = kani::any();
        let (mut a, mut b) = (s1, s2);
        let mut k = 0u32;
        while k < 10 {
            let m = 10 - k;
            kani::assume(a % m == b % m);
            a /= m; b /= m;
            k += 1;
        }
        let g1 = remap_pin_grid(s1);
        let g2 = remap_pin_grid(s2);
        let mut ok = true;
        let mut i = 0;
        while i < 10 { ok &= g1[i] == g2[i]; i += 1; }
        kani::cover!(s1 != s2);
        assert!(ok, "C16 equal sequential remainders give equal layouts");
    }

    // ---- calculate_hash: composition, with both callees replaced by their proved contracts and SHA-1's compress recorded ----
    const MAXB: usize = 4;
    static LOG: [AtomicU8; 64 * MAXB] = [const { AtomicU8::new(0) }; 64 * MAXB];
    static NLOG: AtomicUsize = AtomicUsize::new(0);
    pub fn compress_stub(state: &mut [u32; 5], blocks: &[GenericArray<u8, U64>]) {
        let mut b = 0;
        while b < blocks.len() {
            let n = NLOG.load(Ordering::Relaxed);
            if n < MAXB { let mut i = 0; while i < 64 { LOG[n * 64 + i].store(blocks[b][i], Ordering::Relaxed); i += 1; } }
            NLOG.store(n + 1, Ordering::Relaxed);
            *state = [(n + 1) as u32, 0x11111111, 0x22222222, 0x33333333, 0x44444444];
            b += 1;
        }
    }
    fn log_byte(block: usize, i: usize) -> u8 { LOG[block * 64 + i].load(Ordering::Relaxed) }
    fn token_byte(t: u32, i: usize) -> u8 { [t, 0x11111111u32, 0x22222222, 0x33333333, 0x44444444][i / 4].to_be_bytes()[i % 4] }
    fn block_is_padding_of(b: usize, msg: &[u8; 40], n: usize) -> bool {
        let mut ok = true;
        let mut i = 0;
        while i < 64 {
            let want = if i < n { msg[i] } else if i == n { 0x80 } else if i < 56 { 0 } else { ((8 * n as u64) >> (8 * (63 - i))) as u8 };
            ok &= log_byte(b, i) == want;
            i += 1;
        }
        ok
    }
    static DIGITS: [AtomicU8; 10] = [const { AtomicU8::new(0) }; 10];
    static GRID: [AtomicU8; 10] = [const { AtomicU8::new(0) }; 10];

    /// contract of remap_pin_grid (c16_remap_perm): some permutation of 0..9
    fn remap_stub(_seed: u32) -> [u8; 10] {
        let mut g = [0u8; 10]; let mut i = 0; while i < 10 { g[i] = GRID[i].load(Ordering::Relaxed); i += 1; } g
    }
    fn hash_for<const N: usize>() -> bool {
        // an arbitrary permutation and arbitrary N decimal digits, fixed before the call
        let grid: [u8; 10] = kani::any();
        let mut seen = [false; 10];
        let mut i = 0;
        while i < 10 { kani::assume(grid[i] < 10); seen[grid[i] as usize] = true; i += 1; }
        i = 0;
        while i < 10 { kani::assume(seen[i]); GRID[i].store(grid[i], Ordering::Relaxed); i += 1; }
        let digits: [u8; 10] = kani::any();
        i = 0;
        while i < 10 { kani::assume(digits[i] < 10); DIGITS[i].store(digits[i], Ordering::Relaxed); i += 1; }
        let ss: [u8; 16] = kani::any();
        let cs: [u8; 16] = kani::any();
        let r = calculate_hash(kani::any(), kani::any(), &ss, &cs);
        if N < 4 { return r.is_none(); }
        let h = match r { Some(h) => h, None => return false };
        // expected messages
        let mut m0 = [0u8; 40];
        let mut m1 = [0u8; 40];
        i = 0;
        while i < 16 { m0[i] = ss[i]; m1[i] = cs[i]; i += 1; }
        i = 0;
        while i < N {
            // position of digit i in the layout
            let mut pos = 0u8; let mut k = 0;
            while k < 10 { if grid[k] == digits[i] { pos = k as u8; } k += 1; }
            m0[16 + i] = pos + 0x30;
            i += 1;
        }
        i = 0;
        while i < 20 { m1[16 + i] = token_byte(1, i); i += 1; }
        let mut ok = NLOG.load(Ordering::Relaxed) == 2;
        ok &= block_is_padding_of(0, &m0, 16 + N);
        ok &= block_is_padding_of(1, &m1, 36);
        i = 0;
        while i < 20 { ok &= h[i] == token_byte(2, i); i += 1; }
        ok
    }
    macro_rules! hash_harness {
        ($name:ident, $stub:ident, $n:expr) => {
            /// contract of pin_to_bytes (proved by Verus) for PINs with exactly $n digits: the first $n bytes of the buffer hold arbitrary decimal digits
            fn $stub(_pin: u32, out: &mut [u8; 10]) -> &mut [u8] {
                let mut i = 0; while i < $n { out[i] = DIGITS[i].load(Ordering::Relaxed); i += 1; }
                &mut out[0..$n]
            }
            #[kani::proof]
            #[kani::unwind(66)]
            #[kani::stub(sha1::compress::compress, compress_stub)]
            #[kani::stub(crate::pin::pin_to_bytes, $stub)]
            #[kani::stub(crate::pin::remap_pin_grid, remap_stub)]
            pub fn $name() { assert!(hash_for::<$n>(), "C16 calculate_hash = SHA1(client salt | SHA1(server salt | ASCII(position of each digit in the layout)))"); }
        };
    }
    hash_harness!(c16_hash_03, digits_stub_03, 3);
    hash_harness!(c16_hash_04, digits_stub_04, 4);
    hash_harness!(c16_hash_05, digits_stub_05, 5);
    hash_harness!(c16_hash_06, digits_stub_06, 6);
    hash_harness!(c16_hash_07, digits_stub_07, 7);
    hash_harness!(c16_hash_08, digits_stub_08, 8);
    hash_harness!(c16_hash_09, digits_stub_09, 9);
    hash_harness!(c16_hash_10, digits_stub_10, 10);
    hash_harness!(c16_hash_00, digits_stub_00, 0);
}
