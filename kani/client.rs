// Appended (add-only) to src/client.rs of the scratch copy.
#[cfg(kani)]
pub mod verif_kani {
    use super::*;
    #[allow(unused_imports)] use crate::key::{PrivateKey, Proof, PublicKey, ReconnectData, Salt, SessionKey}; #[allow(unused_imports)] use crate::normalized_string::NormalizedString;
    use core::sync::atomic::{AtomicU8, Ordering};
    use crate::normalized_string::verif_kani::verif_make;
    static M2: [AtomicU8; 20] = [const { AtomicU8::new(0) }; 20];
    fn server_proof_stub(_a: &PublicKey, _m1: &Proof, _k: &SessionKey) -> Proof {
        let mut p = [0u8; 20]; let mut i = 0; while i < 20 { p[i] = M2[i].load(Ordering::Relaxed); i += 1; } Proof::from_le_bytes(p)
    }
    /// C02 (complete): the client accepts the server proof iff all 20 bytes equal the value it computes; Err carries both
    fn c02_verify_server_proof_body(with_covers: bool) -> bool {
        let name = verif_make(kani::any(), kani::any());
        let m2: [u8; 20] = kani::any(); let presented: [u8; 20] = kani::any(); let key: [u8; 40] = kani::any();
        let mut i = 0;
        while i < 20 { M2[i].store(m2[i], Ordering::Relaxed); i += 1; }
        let a: [u8; 32] = kani::any();
        let a_pub = match PublicKey::from_le_bytes(a) { Ok(p) => p, Err(_) => return true };
        let c = SrpClientChallenge { username: name.clone(), client_proof: Proof::from_le_bytes(kani::any()), client_public_key: a_pub, session_key: SessionKey::from_le_bytes(key) };
        let mut same = true;
        i = 0;
        while i < 20 { if presented[i] != m2[i] { same = false; } i += 1; }
        let mut ok = true;
        match c.verify_server_proof(presented) {
            Ok(cl) => { ok &= same && *cl.session_key() == key; }
            Err(e) => { ok &= !same && e.server_proof == presented && e.client_proof == m2; }
        }
        if with_covers { kani::cover!(same); kani::cover!(!same); }
        ok
    }
    #[kani::proof]
    #[kani::unwind(42)]
    #[kani::stub(crate::srp_internal::calculate_server_proof, server_proof_stub)]
    pub fn c02_verify_server_proof() { assert!(c02_verify_server_proof_body(true), "C02 verify_server_proof: Ok iff whole-proof equality"); }
    /// same harness with the contract's negation as a cover: yields the concrete counterexample when the contract fails
    #[kani::proof]
    #[kani::unwind(42)]
    #[kani::stub(crate::srp_internal::calculate_server_proof, server_proof_stub)]
    pub fn c02_verify_server_proof_cex() { let ok = c02_verify_server_proof_body(false); kani::cover!(!ok, "counterexample"); }
}
