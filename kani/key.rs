// Appended (add-only) to src/key.rs of the scratch copy as a child module: sees private items of `key`.
#[cfg(kani)]
pub mod verif_kani {
    use super::*;
    #[allow(unused_imports)] use crate::LARGE_SAFE_PRIME_LITTLE_ENDIAN;
    use crate::error::InvalidPublicKeyError;

    /// C04: of the 2^256 encodings exactly zero and N are refused, each with its own error kind.
    /// Full symbolic domain, loops bounded by the 32-byte width: complete, not bounded.
    #[kani::proof]
    #[kani::unwind(34)]
    pub fn c04_check_public_key() {
        let key: [u8; 32] = kani::any();
        let mut is_zero = true;
        let mut is_n = true;
        let mut i = 0;
        while i < 32 {
            if key[i] != 0 { is_zero = false; }
            if key[i] != LARGE_SAFE_PRIME_LITTLE_ENDIAN[i] { is_n = false; }
            i += 1;
        }
        let r = check_public_key(&key);
        let ok = match r {
            Ok(()) => !is_zero && !is_n,
            Err(InvalidPublicKeyError::PublicKeyIsZero) => is_zero,
            Err(InvalidPublicKeyError::PublicKeyModLargeSafePrimeIsZero) => is_n && !is_zero,
        };
        kani::cover!(r.is_ok());
        kani::cover!(is_n);
        assert!(ok, "C04 check_public_key: Ok iff key != 0 && key != N; error kind names the case");
    }

    /// C04: an accepted key is handed back unchanged by the accessor
    #[kani::proof]
    #[kani::unwind(34)]
    pub fn c04_from_le_bytes() {
        let key: [u8; 32] = kani::any();
        let r = PublicKey::from_le_bytes(key);
        let chk = check_public_key(&key);
        assert!(r.is_ok() == chk.is_ok());
        if let Ok(p) = r {
            kani::cover!(true);
            let mut same = true;
            let mut i = 0;
            while i < 32 { if p.as_le_bytes()[i] != key[i] { same = false; } i += 1; }
            assert!(same, "C04 accessor returns the accepted key unchanged");
        }
    }

    /// C14 / C01: as_equal_slice never indexes out of bounds (all 2^256 secrets, S = 0 included) and
    /// returns the suffix after the leading zero bytes, one more dropped if their count is odd.
    #[kani::proof]
    #[kani::unwind(34)]
    pub fn c14_as_equal_slice() {
        let key: [u8; 32] = kani::any();
        let s = SKey::from_le_bytes(key);
        let r = s.as_equal_slice();
        let mut lead = 0usize;
        while lead < 32 && key[lead] == 0 { lead += 1; }
        if lead % 2 == 1 { lead += 1; }
        kani::cover!(lead == 32);
        kani::cover!(lead == 0);
        assert!(r.len() == 32 - lead, "C01/C03 strip length");
        assert!(r.len() % 2 == 0);
    }
}

// Native replay of Kani counterexamples against the real functions (normal build, `--cfg gtker_wow_srp_verif`).
#[cfg(all(test, gtker_wow_srp_verif))]
mod verif_replay {
    use super::*;
    use crate::error::InvalidPublicKeyError;

    fn input() -> Vec<u8> {
        let h = std::env::var("VERIF_REPLAY_INPUT").unwrap_or_default();
        (0..h.len() / 2).map(|i| u8::from_str_radix(&h[2 * i..2 * i + 2], 16).unwrap()).collect()
    }

    #[test]
    fn verif_replay_c04_check_public_key() {
        let b = input();
        let mut key = [0u8; 32];
        key.copy_from_slice(&b[..32]);
        let is_zero = key == [0u8; 32];
        let is_n = key == LARGE_SAFE_PRIME_LITTLE_ENDIAN;
        let expected = if is_zero { "Err(PublicKeyIsZero)" } else if is_n { "Err(PublicKeyModLargeSafePrimeIsZero)" } else { "Ok" };
        let actual = match check_public_key(&key) {
            Ok(()) => "Ok",
            Err(InvalidPublicKeyError::PublicKeyIsZero) => "Err(PublicKeyIsZero)",
            Err(InvalidPublicKeyError::PublicKeyModLargeSafePrimeIsZero) => "Err(PublicKeyModLargeSafePrimeIsZero)",
        };
        println!("REPLAY c04_check_public_key key={:02x?} expected={} actual={}", key, expected, actual);
        if expected != actual { println!("REPLAY-FAIL c04_check_public_key"); }
    }

    #[test]
    fn verif_replay_c14_as_equal_slice() {
        let b = input();
        let mut key = [0u8; 32];
        key.copy_from_slice(&b[..32]);
        println!("REPLAY c14_as_equal_slice S={:02x?}", key);
        let r = std::panic::catch_unwind(|| SKey::from_le_bytes(key).as_equal_slice().len());
        match r {
            Ok(n) => println!("REPLAY c14_as_equal_slice returned a slice of {} bytes", n),
            Err(_) => println!("REPLAY-FAIL c14_as_equal_slice panicked"),
        }
    }

    /// C04 on the client: the acceptance test relative to the announced modulus (bounded search)
    #[test]
    fn verif_search_c04_client_key() {
        use crate::primes::LargeSafePrime;
        let seed = std::env::var("VERIF_SEED").ok().and_then(|s| s.parse::<u64>().ok()).unwrap_or(0) ^ 0x9E3779B97F4A7C15;
        let mut r = seed;
        let mut next = move || { r ^= r << 13; r ^= r >> 7; r ^= r << 17; r };
        let le = |v: u128| { let mut b = [0u8; 32]; b[..16].copy_from_slice(&v.to_le_bytes()); b };
        let mut moduli: Vec<u128> = (1..=300u128).collect();
        moduli.extend([65537u128, 2147483647, 6, 254, 1 << 64, (1u128 << 100) + 7]);
        let mut n = 0u64;
        for m in moduli {
            let mut cands: Vec<u128> = vec![0, 1, m - 1, m, m + 1, 2 * m, 3 * m, 7 * m + 1];
            if m <= 300 { cands.extend(0..=2 * m); }
            for d in 1..=12u128 { if m % d == 0 { cands.push(d); cands.push(m / d); } }
            for _ in 0..20 { cands.push(next() as u128 % (4 * m + 5)); }
            for a in cands {
                n += 1;
                let got = std::panic::catch_unwind(|| PublicKey::client_try_from_bigint(crate::bigint::Integer::from_bytes_le(&a.to_le_bytes()), &LargeSafePrime::from_le_bytes(le(m))));
                let want = if a == 0 { "zero" } else if a % m == 0 { "modzero" } else { "ok" };
                let have = match &got { Err(_) => "panic", Ok(Err(InvalidPublicKeyError::PublicKeyIsZero)) => "zero", Ok(Err(InvalidPublicKeyError::PublicKeyModLargeSafePrimeIsZero)) => "modzero", Ok(Ok(k)) => if *k.as_le_bytes() == le(a) { "ok" } else { "ok-but-changed" } };
                if want != have { println!("REPLAY-FAIL c04_client_key A={} modulus={} expected={} actual={}", a, m, want, have); return; }
            }
        }
        // server side: only 0 and N are refused
        let nn = LARGE_SAFE_PRIME_LITTLE_ENDIAN;
        for i in 0..2000 {
            let mut k = [0u8; 32];
            match i % 4 { 0 => { for x in k.iter_mut() { *x = next() as u8; } }, 1 => { k = nn; let p = (next() % 32) as usize; k[p] ^= 1 << (next() % 8); },
                          2 => { let p = (next() % 32) as usize; k[p] = 1 << (next() % 8); }, _ => { for (j, x) in k.iter_mut().enumerate() { if next() % 2 == 0 { *x = nn[j]; } } } }
            n += 1;
            let want_ok = k != [0u8; 32] && k != nn;
            let got = PublicKey::try_from_bigint(crate::bigint::Integer::from_bytes_le(&k));
            match got { Ok(p) => { if !want_ok || *p.as_le_bytes() != k { println!("REPLAY-FAIL c04_client_key try_from_bigint accepted/changed key={:02x?}", k); return; } }
                        Err(_) => { if want_ok { println!("REPLAY-FAIL c04_client_key try_from_bigint refused the valid key {:02x?}", k); return; } } }
        }
        println!("REPLAY-STATS c04_client_key inputs={} all-ok", n);
    }
}

