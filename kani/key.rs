// Appended (add-only) to src/key.rs of the scratch copy as a child module: sees private items of `key`.
#[cfg(kani)]
pub mod verif_kani {
    use super::*;
    #[allow(unused_imports)] use crate::LARGE_SAFE_PRIME_LITTLE_ENDIAN;
    use crate::error::InvalidPublicKeyError;

    /// C04: of the 2^256 encodings exactly zero and N are refused, each with its own error kind.
    /// Full symbolic domain, loops bounded by the 32-byte width: complete, not bounded.
    #[kani::proof]
    #[kani::unwind(34)]
    pub fn c04_check_public_key() {
        let key: [u8; 32] = kani::any();
        let mut is_zero = true;
        let mut is_n = true;
        let mut i = 0;
        while i < 32 {
            if key[i] != 0 { is_zero = false; }
            if key[i] != LARGE_SAFE_PRIME_LITTLE_ENDIAN[i] { is_n = false; }
            i += 1;
        }
        let r = check_public_key(&key);
        let ok = match r {
            Ok(()) => !is_zero && !is_n,
            Err(InvalidPublicKeyError::PublicKeyIsZero) => is_zero,
            Err(InvalidPublicKeyError::PublicKeyModLargeSafePrimeIsZero) => is_n && !is_zero,
        };
        kani::cover!(r.is_ok());
        kani::cover!(is_n);
        assert!(ok, "C04 check_public_key: Ok iff key != 0 && key != N; error kind names the case");
    }

    /// C04: an accepted key is handed back unchanged by the accessor
    #[kani::proof]
    #[kani::unwind(34)]
    pub fn c04_from_le_bytes() {
        let key: [u8; 32] = kani::any();
        let r = PublicKey::from_le_bytes(key);
        let chk = check_public_key(&key);
        assert!(r.is_ok() == chk.is_ok());
        if let Ok(p) = r {
            kani::cover!(true);
            let mut same = true;
            let mut i = 0;
            while i < 32 { if p.as_le_bytes()[i] != key[i] { same = false; } i += 1; }
            assert!(same, "C04 accessor returns the accepted key unchanged");
        }
    }

    /// C14 / C01: as_equal_slice never indexes out of bounds (all 2^256 secrets, S = 0 included) and
    /// returns the suffix after the leading zero bytes, one more dropped if their count is odd.
    #[kani::proof]
    #[kani::unwind(34)]
    pub fn c14_as_equal_slice() {
        let key: [u8; 32] = kani::any();
        let s = SKey::from_le_bytes(key);
        let r = s.as_equal_slice();
        let mut lead = 0usize;
        while lead < 32 && key[lead] == 0 { lead += 1; }
        if lead % 2 == 1 { lead += 1; }
        kani::cover!(lead == 32);
        kani::cover!(lead == 0);
        assert!(r.len() == 32 - lead, "C01/C03 strip length");
        assert!(r.len() % 2 == 0);
    }
}

// Native replay of Kani counterexamples against the real functions (normal build, `--cfg gtker_wow_srp_verif`).
#[cfg(all(test, gtker_wow_srp_verif))]
mod verif_replay {
    use super::*;
    use crate::error::InvalidPublicKeyError;

    fn input() -> Vec<u8> {
        let h = std::env::var("VERIF_REPLAY_INPUT").unwrap_or_default();
        (0..h.len() / 2).map(|i| u8::from_str_radix(&h[2 * i..2 * i + 2], 16).unwrap()).collect()
    }

    #[test]
    fn verif_replay_c04_check_public_key() {
        let b = input();
        let mut key = [0u8; 32];
        key.copy_from_slice(&b[..32]);
        let is_zero = key == [0u8; 32];
        let is_n = key == LARGE_SAFE_PRIME_LITTLE_ENDIAN;
        let expected = if is_zero { "Err(PublicKeyIsZero)" } else if is_n { "Err(PublicKeyModLargeSafePrimeIsZero)" } else { "Ok" };
        let actual = match check_public_key(&key) {
            Ok(()) => "Ok",
            Err(InvalidPublicKeyError::PublicKeyIsZero) => "Err(PublicKeyIsZero)",
            Err(InvalidPublicKeyError::PublicKeyModLargeSafePrimeIsZero) => "Err(PublicKeyModLargeSafePrimeIsZero)",
        };
        println!("REPLAY c04_check_public_key key={:02x?} expected={} actual={}", key, expected, actual);
        if expected != actual { println!("REPLAY-FAIL c04_check_public_key"); }
    }

    #[test]
    fn verif_replay_c14_as_equal_slice() {
        let b = input();
        let mut key = [0u8; 32];
        key.copy_from_slice(&b[..32]);
        println!("REPLAY c14_as_equal_slice S={:02x?}", key);
        let r = std::panic::catch_unwind(|| SKey::from_le_bytes(key).as_equal_slice().len());
        match r {
            Ok(n) => println!("REPLAY c14_as_equal_slice returned a slice of {} bytes", n),
            Err(_) => println!("REPLAY-FAIL c14_as_equal_slice panicked"),
        }
    }

    /// C04 on the client: the acceptance test relative to the announced modulus (bounded search)
    #[test]
    fn verif_search_c04_client_key() {
        use crate::primes::LargeSafePrime;
        let seed = std::env::var("VERIF_SEED").ok().and_then(|s| s.parse::<u64>().ok()).unwrap_or(0) ^ 0x9E3779B97F4A7C15;
        let mut r = seed;
        let mut next = move || { r ^= r << 13; r ^= r >> 7; r ^= r << 17; r };
        let le = |v: u128| { let mut b = [0u8; 32]; b[..16].copy_from_slice(&v.to_le_bytes()); b };
        let mut moduli: Vec<u128> = (1..=300u128).collect();
        moduli.extend([65537u128, 2147483647, 6, 254, 1 << 64, (1u128 << 100) + 7]);
        let mut n = 0u64;
        for m in moduli {
            let mut cands: Vec<u128> = vec![0, 1, m - 1, m, m + 1, 2 * m, 3 * m, 7 * m + 1];
            if m <= 300 { cands.extend(0..=2 * m); }
            for d in 1..=12u128 { if m % d == 0 { cands.push(d); cands.push(m / d); } }
            for _ in 0..20 { cands.push(next() as u128 % (4 * m + 5)); }
            for a in cands {
                n += 1;
                let got = std::panic::catch_unwind(|| PublicKey::client_try_from_bigint(crate::bigint::Integer::from_bytes_le(&a.to_le_bytes()), &LargeSafePrime::from_le_bytes(le(m))));
                let want = if a == 0 { "zero" } else if a % m == 0 { "modzero" } else { "ok" };
                let have = match &got { Err(_) => "panic", Ok(Err(InvalidPublicKeyError::PublicKeyIsZero)) => "zero", Ok(Err(InvalidPublicKeyError::PublicKeyModLargeSafePrimeIsZero)) => "modzero", Ok(Ok(k)) => if *k.as_le_bytes() == le(a) { "ok" } else { "ok-but-changed" } };
                if want != have { println!("REPLAY-FAIL c04_client_key A={} modulus={} expected={} actual={}", a, m, want, have); return; }
            }
        }
        // server side: only 0 and N are refused
        let nn = LARGE_SAFE_PRIME_LITTLE_ENDIAN;
        for i in 0..2000 {
            let mut k = [0u8; 32];
            match i % 4 { 0 => { for x in k.iter_mut() { *x = next() as u8; } }, 1 => { k = nn; let p = (next() % 32) as usize; k[p] ^= 1 << (next() % 8); },
                          2 => { let p = (next() % 32) as usize; k[p] = 1 << (next() % 8); }, _ => { for (j, x) in k.iter_mut().enumerate() { if next() % 2 == 0 { *x = nn[j]; } } } }
            n += 1;
            let want_ok = k != [0u8; 32] && k != nn;
            let got = PublicKey::try_from_bigint(crate::bigint::Integer::from_bytes_le(&k));
            match got { Ok(p) => { if !want_ok || *p.as_le_bytes() != k { println!("REPLAY-FAIL c04_client_key try_from_bigint accepted/changed key={:02x?}", k); return; } }
                        Err(_) => { if want_ok { println!("REPLAY-FAIL c04_client_key try_from_bigint refused the valid key {:02x?}", k); return; } } }
        }
        println!("REPLAY-STATS c04_client_key inputs={} all-ok", n);
    }

    /// the byte-array wrappers and the group constants: from_le_bytes / as_le_bytes / as_bigint / == / defaults (bounded search;
    /// fallback for the accessor and trait-impl contracts when one of them leaves the verified shape)
    #[test]
    fn verif_search_c01_wrappers() {
        use crate::primes::{Generator, KValue, LargeSafePrime};
        use crate::bigint::Integer;
        let seed = std::env::var("VERIF_SEED").ok().and_then(|s| s.parse::<u64>().ok()).unwrap_or(0) ^ 0x9E3779B97F4A7C15;
        let mut r = seed;
        let mut next = move || { r ^= r << 13; r ^= r >> 7; r ^= r << 17; r };
        let mut n = 0u64;
        macro_rules! fail { ($($a:tt)*) => { { println!("REPLAY-FAIL c01_wrappers {}", format!($($a)*)); return; } } }
        // value of a little-endian byte string, as the 32-byte padded array (values here are < 2^256)
        fn padded(b: &[u8]) -> [u8; 32] { let mut o = [0u8; 32]; o[..b.len().min(32)].copy_from_slice(&b[..b.len().min(32)]); o }
        macro_rules! wrapper_plain { ($t:ident, $len:expr) => { {
            for round in 0..200u32 {
                let mut k = [0u8; $len]; for x in k.iter_mut() { *x = next() as u8; }
                match round { 0 => k = [0u8; $len], 1 => k = [0xff; $len], 2 => { k = [0u8; $len]; k[0] = 1; }, 3 => { k = [0u8; $len]; k[$len - 1] = 0x80; }, 4 => { for z in 0..($len / 2) { k[$len - 1 - z] = 0; } }, 5 => { for z in 0..($len / 2) { k[z] = 0; } }, _ => {} }
                n += 1;
                let a = $t::from_le_bytes(k);
                if *a.as_le_bytes() != k { fail!("{}::from_le_bytes / as_le_bytes do not round-trip {:02x?}", stringify!($t), k); }
                let b = a;
                if !(a == b) || a != b { fail!("{} is not equal to its own copy", stringify!($t)); }
                for pos in 0..$len { for mask in [0x01u8, 0x80, 0xff] { let mut o = k; o[pos] ^= mask; if $t::from_le_bytes(o) == a { fail!("{} values differing in byte {} compare equal", stringify!($t), pos); } } }
                if $len >= 2 { let mut o = k; o[0] ^= 0x40; o[$len - 1] ^= 0x40; if $t::from_le_bytes(o) == a { fail!("{} values differing in two bytes by the same mask compare equal", stringify!($t)); } }
            }
        } } }
        macro_rules! bigint_of { ($t:ident, $len:expr) => { {
            for round in 0..200u32 {
                let mut k = [0u8; $len]; for x in k.iter_mut() { *x = next() as u8; }
                match round { 0 => k = [0u8; $len], 1 => k = [0xff; $len], 2 => { k = [0u8; $len]; k[0] = 1; }, 3 => { for z in 0..($len / 2) { k[$len - 1 - z] = 0; } }, _ => {} }
                n += 1;
                if $t::from_le_bytes(k).as_bigint().to_padded_32_byte_array_le() != padded(&k) { fail!("{}::as_bigint is not the little-endian value of {:02x?}", stringify!($t), k); }
            }
        } } }
        wrapper_plain!(Salt, 32); wrapper_plain!(PrivateKey, 32); wrapper_plain!(Sha1Hash, 20); wrapper_plain!(Verifier, 32); wrapper_plain!(Proof, 20);
        wrapper_plain!(SKey, 32); wrapper_plain!(ReconnectData, 16); wrapper_plain!(SessionKey, 40);
        bigint_of!(PrivateKey, 32); bigint_of!(Sha1Hash, 20); bigint_of!(Verifier, 32);
        // PublicKey: checked constructor
        for round in 0..300u32 {
            let mut k = [0u8; 32]; for x in k.iter_mut() { *x = next() as u8; }
            match round { 0 => { k = [0u8; 32]; k[0] = 1; }, 1 => k = [0xff; 32], 2 => { k = [0u8; 32]; k[31] = 0x80; }, 3 => { k = LARGE_SAFE_PRIME_LITTLE_ENDIAN; k[0] ^= 1; }, 4 => { k = LARGE_SAFE_PRIME_LITTLE_ENDIAN; k[31] ^= 0x80; }, _ => {} }
            if k == [0u8; 32] || k == LARGE_SAFE_PRIME_LITTLE_ENDIAN { continue; }
            n += 1;
            let a = match PublicKey::from_le_bytes(k) { Ok(a) => a, Err(_) => fail!("PublicKey::from_le_bytes refused {:02x?}", k) };
            if *a.as_le_bytes() != k { fail!("PublicKey::from_le_bytes / as_le_bytes do not round-trip {:02x?}", k); }
            if a.as_bigint().to_padded_32_byte_array_le() != k { fail!("PublicKey::as_bigint is not the little-endian value of {:02x?}", k); }
            for pos in 0..32 { let mut o = k; o[pos] ^= 0x10; if o == [0u8; 32] || o == LARGE_SAFE_PRIME_LITTLE_ENDIAN { continue; } if PublicKey::from_le_bytes(o).map(|p| p == a).unwrap_or(false) { fail!("PublicKey values differing in byte {} compare equal", pos); } }
        }
        // group constants
        n += 1;
        if *LargeSafePrime::default().as_le_bytes() != LARGE_SAFE_PRIME_LITTLE_ENDIAN { fail!("LargeSafePrime::default is not the built-in prime"); }
        if LargeSafePrime::default().to_bigint().to_padded_32_byte_array_le() != LARGE_SAFE_PRIME_LITTLE_ENDIAN { fail!("LargeSafePrime::to_bigint is not the value of the built-in prime"); }
        if Generator::default().as_u8() != 7 || Generator::default().to_bigint().to_padded_32_byte_array_le() != padded(&[7]) { fail!("the default generator is not 7"); }
        if KValue::bigint().to_padded_32_byte_array_le() != padded(&[3]) { fail!("k is not 3"); }
        for g in 0..=255u8 { n += 1; let gg = Generator::from(g); if gg.as_u8() != g || gg.to_bigint().to_padded_32_byte_array_le() != padded(&[g]) { fail!("Generator::from({}) does not carry {}", g, g); } }
        for _ in 0..200 { let mut k = [0u8; 32]; for x in k.iter_mut() { *x = next() as u8; } n += 1;
            let p = LargeSafePrime::from_le_bytes(k);
            if *p.as_le_bytes() != k || p.to_bigint().to_padded_32_byte_array_le() != k { fail!("LargeSafePrime::from_le_bytes / as_le_bytes / to_bigint do not carry {:02x?}", k); } }
        let _ = Integer::from(1u8);
        println!("REPLAY-STATS c01_wrappers inputs={} all-ok", n);
    }
}
