// Appended (add-only) to src/normalized_string.rs of the scratch copy.
#[cfg(kani)]
pub mod verif_kani {
    use super::*;
    /// read the private representation (for the external harness crate, which needs `unsafe` to build a &str
    /// without running UTF-8 validation symbolically; this crate forbids unsafe code)
    pub fn verif_parts(n: &NormalizedString) -> ([u8; 16], u8) { (n.s, n.length) }
    /// build a value from raw parts (used only to quantify over all values satisfying the representation invariant)
    pub fn verif_make(s: [u8; 16], length: u8) -> NormalizedString { NormalizedString { s, length } }

    fn any_wf() -> NormalizedString {
        let s: [u8; 16] = kani::any();
        let length: u8 = kani::any();
        kani::assume(length >= 1 && length <= 16);
        let mut i = 0;
        while i < 16 {
            if (i as u8) < length {
                kani::assume(s[i] >= 0x20 && s[i] <= 0x7E && !(s[i] >= b'a' && s[i] <= b'z'));
            } else {
                kani::assume(s[i] == 0);
            }
            i += 1;
        }
        NormalizedString { s, length }
    }

    /// C13: derived ==, cmp (and hence hashing of equal values) follow the normalised text, for all pairs of values
    /// satisfying the representation invariant established by `new`.
    #[kani::proof]
    #[kani::unwind(18)]
    pub fn c13_traits() {
        let a = any_wf();
        let b = any_wf();
        // comparison of the normalised texts, computed independently
        let mut ord = core::cmp::Ordering::Equal;
        let mut i = 0usize;
        while i < 16 {
            if ord == core::cmp::Ordering::Equal {
                let ina = (i as u8) < a.length;
                let inb = (i as u8) < b.length;
                if ina && inb {
                    if a.s[i] < b.s[i] { ord = core::cmp::Ordering::Less; } else if a.s[i] > b.s[i] { ord = core::cmp::Ordering::Greater; }
                } else if ina && !inb { ord = core::cmp::Ordering::Greater; }
                else if !ina && inb { ord = core::cmp::Ordering::Less; }
            }
            i += 1;
        }
        kani::cover!(ord == core::cmp::Ordering::Equal);
        kani::cover!(ord == core::cmp::Ordering::Less);
        assert!((a == b) == (ord == core::cmp::Ordering::Equal), "C13 == follows the normalised text");
        assert!(a.cmp(&b) == ord, "C13 cmp follows the normalised text");
        assert!(a.partial_cmp(&b) == Some(ord), "C13 partial_cmp follows the normalised text");
        let c = a.clone();
        assert!(c == a, "clone is equal");
    }
}
