// Appended (add-only) to src/normalized_string.rs of the scratch copy.
#[cfg(kani)]
pub mod verif_kani {
    use super::*;
    /// read the private representation (for the external harness crate, which needs `unsafe` to build a &str
    /// without running UTF-8 validation symbolically; this crate forbids unsafe code)
    pub fn verif_parts(n: &NormalizedString) -> ([u8; 16], u8) { (n.s, n.length) }
    /// build a value from raw parts (used only to quantify over all values satisfying the representation invariant)
    pub fn verif_make(s: [u8; 16], length: u8) -> NormalizedString { NormalizedString { s, length } }

    fn any_wf() -> NormalizedString {
        let s: [u8; 16] = kani::any();
        let length: u8 = kani::any();
        kani::assume(length >= 1 && length <= 16);
        let mut i = 0;
        while i < 16 {
            if (i as u8) < length {
                kani::assume(s[i] >= 0x20 && s[i] <= 0x7E && !(s[i] >= b'a' && s[i] <= b'z'));
            } else {
                kani::assume(s[i] == 0);
            }
            i += 1;
        }
        NormalizedString { s, length }
    }

    /// C13: derived ==, cmp (and hence hashing of equal values) follow the normalised text, for all pairs of values
    /// satisfying the representation invariant established by `new`.
    #[kani::proof]
    #[kani::unwind(18)]
    pub fn c13_traits() {
        let a = any_wf();
        let b = any_wf();
        // comparison of the normalised texts, computed independently
        let mut ord = core::cmp::Ordering::Equal;
        let mut i = 0usize;
        while i < 16 {
            if ord == core::cmp::Ordering::Equal {
                let ina = (i as u8) < a.length;
                let inb = (i as u8) < b.length;
                if ina && inb {
                    if a.s[i] < b.s[i] { ord = core::cmp::Ordering::Less; } else if a.s[i] > b.s[i] { ord = core::cmp::Ordering::Greater; }
                } else if ina && !inb { ord = core::cmp::Ordering::Greater; }
                else if !ina && inb { ord = core::cmp::Ordering::Less; }
            }
            i += 1;
        }
        kani::cover!(ord == core::cmp::Ordering::Equal);
        kani::cover!(ord == core::cmp::Ordering::Less);
        assert!((a == b) == (ord == core::cmp::Ordering::Equal), "C13 == follows the normalised text");
        assert!(a.cmp(&b) == ord, "C13 cmp follows the normalised text");
        assert!(a.partial_cmp(&b) == Some(ord), "C13 partial_cmp follows the normalised text");
        let c = a.clone();
        assert!(c == a, "clone is equal");
    }
}

// Bounded native search for the parts of C13 no contract reaches: Display (Formatter) and Hash (derive), plus a cross-check of
// ==, cmp and case-insensitivity against the normalised text.
#[cfg(all(test, gtker_wow_srp_verif))]
mod verif_search {
    use super::*;
    use std::collections::hash_map::DefaultHasher;
    use std::hash::{Hash, Hasher};
    struct Rng(u64);
    impl Rng { fn next(&mut self) -> u64 { self.0 ^= self.0 << 13; self.0 ^= self.0 >> 7; self.0 ^= self.0 << 17; self.0 } }
    fn hash_of(n: &NormalizedString) -> u64 { let mut h = DefaultHasher::new(); n.hash(&mut h); h.finish() }
    #[test]
    fn verif_search_c13_display_hash() {
        let seed = std::env::var("VERIF_SEED").ok().and_then(|s| s.parse::<u64>().ok()).unwrap_or(0) ^ 0x9E3779B97F4A7C15;
        let mut rng = Rng(seed);
        let mut n = 0u64;
        let mut prev: Option<(NormalizedString, String)> = None;
        for round in 0..3000 {
            let len = 1 + (rng.next() % 16) as usize;
            let s: String = (0..len).map(|_| (0x20 + (rng.next() % 0x5f) as u8) as char).collect();
            let up = s.to_ascii_uppercase();
            let a = NormalizedString::new(&s).unwrap();
            let b = NormalizedString::new(s.to_ascii_lowercase()).unwrap();
            n += 1;
            if a.as_ref() != up || format!("{}", a) != up || a.to_string() != up { println!("REPLAY-FAIL c13_display_hash text/display of {:?} is {:?} / {:?}, expected {:?}", s, a.as_ref(), format!("{}", a), up); return; }
            if a != b || hash_of(&a) != hash_of(&b) || a.cmp(&b) != core::cmp::Ordering::Equal { println!("REPLAY-FAIL c13_display_hash case variants of {:?} are not equal / hash differently", s); return; }
            if NormalizedString::new(a.as_ref()).unwrap() != a { println!("REPLAY-FAIL c13_display_hash normalising {:?} twice changes it", s); return; }
            if NormalizedString::from_string(s.clone()).unwrap() != a || NormalizedString::from_str(&s).unwrap() != a { println!("REPLAY-FAIL c13_display_hash constructors disagree on {:?}", s); return; }
            if let Some((p, ptext)) = &prev {
                if (a == *p) != (up == *ptext) || a.cmp(p) != up.as_bytes().cmp(ptext.as_bytes()) || a.partial_cmp(p) != Some(up.as_bytes().cmp(ptext.as_bytes())) {
                    println!("REPLAY-FAIL c13_display_hash ordering/equality of {:?} and {:?} does not follow the normalised text (round {})", up, ptext, round); return;
                }
            }
            prev = Some((a, up));
        }
        // every constructor gives the same verdict as `new`, for lengths 0..=40 (too long beyond 16), bad characters at any position
        {
            use core::convert::TryFrom;
            fn verdict(r: &Result<NormalizedString, NormalizedStringError>) -> String { match r { Ok(v) => format!("Ok({})", v.as_ref()), Err(e) => format!("Err({:?})", e) } }
            for len in 0..=40usize { for variant in 0..8 {
                let mut bytes: Vec<u8> = (0..len).map(|_| 0x20 + (rng.next() % 0x5f) as u8).collect();
                if variant >= 4 && len > 0 { let pos = (rng.next() as usize) % len; bytes[pos] = if variant == 4 { 0x1f } else { 0x7f }; }
                let mut s = String::from_utf8(bytes).unwrap();
                if variant == 3 && len > 0 { s.push('é'); }
                // two different offenders in one string: the first one in text order is the one reported
                if variant == 6 && len >= 2 { let mut b = s.into_bytes(); b[0] = 0x09; s = String::from_utf8(b).unwrap(); s.push('€'); }
                if variant == 7 && len >= 2 { let mut b = s.into_bytes(); let l = b.len(); b[l - 1] = 0x7f; s = String::from_utf8(b).unwrap(); s.insert(0, 'é'); }
                n += 1;
                let want = verdict(&NormalizedString::new(&s));
                if s.len() > 16 && !want.starts_with("Err") { println!("REPLAY-FAIL c13_display_hash new accepted the {}-byte string {:?}", s.len(), s); return; }
                for (name, got) in [("from_string", verdict(&NormalizedString::from_string(s.clone()))), ("from_str", verdict(&NormalizedString::from_str(&s))),
                                    ("TryFrom<String>", verdict(&NormalizedString::try_from(s.clone()))), ("TryFrom<&str>", verdict(&NormalizedString::try_from(s.as_str())))] {
                    if got != want { println!("REPLAY-FAIL c13_display_hash {} gives {} where new gives {} for {:?} ({} bytes)", name, got, want, s, s.len()); return; }
                }
            } }
        }
        println!("REPLAY-STATS c13_display_hash inputs={} all-ok", n);
    }
}
