// Appended (add-only) to src/server.rs of the scratch copy.
#[cfg(kani)]
pub mod verif_kani {
    use super::*;
    #[allow(unused_imports)] use crate::key::{PrivateKey, Proof, PublicKey, ReconnectData, Salt, SessionKey, Verifier}; #[allow(unused_imports)] use crate::normalized_string::NormalizedString;
    use core::sync::atomic::{AtomicU8, AtomicUsize, Ordering};
    use crate::normalized_string::verif_kani::verif_make;

    // ---- stubs that stand for callees by their (separately proved) contracts and record what they were given ----------
    static CALLS: AtomicUsize = AtomicUsize::new(0);
    static RAND_CALLS: AtomicUsize = AtomicUsize::new(0);
    static RAND_AFTER_HASH: AtomicUsize = AtomicUsize::new(0);
    static PROOF: [AtomicU8; 20] = [const { AtomicU8::new(0) }; 20];
    static ARGS_OK: AtomicUsize = AtomicUsize::new(0);
    static EXPECT: [AtomicU8; 72] = [const { AtomicU8::new(0) }; 72];   // client_data | server_data | session key

    fn reconnect_proof_stub(username: &NormalizedString, client_data: &ReconnectData, server_data: &ReconnectData, session_key: &SessionKey) -> Proof {
        // the proof is an unconstrained 20-byte value fixed before the call (so the caller cannot influence it)
        let mut same = true;
        let mut i = 0;
        while i < 16 { same &= client_data.as_le_bytes()[i] == EXPECT[i].load(Ordering::Relaxed); same &= server_data.as_le_bytes()[i] == EXPECT[16 + i].load(Ordering::Relaxed); i += 1; }
        i = 0;
        while i < 40 { same &= session_key.as_le_bytes()[i] == EXPECT[32 + i].load(Ordering::Relaxed); i += 1; }
        ARGS_OK.store(same as usize, Ordering::Relaxed);
        CALLS.store(CALLS.load(Ordering::Relaxed) + 1, Ordering::Relaxed);
        let mut p = [0u8; 20];
        i = 0;
        while i < 20 { p[i] = PROOF[i].load(Ordering::Relaxed); i += 1; }
        Proof::from_le_bytes(p)
    }
    fn randomize_stub(d: &mut ReconnectData) {
        RAND_CALLS.store(RAND_CALLS.load(Ordering::Relaxed) + 1, Ordering::Relaxed);
        RAND_AFTER_HASH.store(CALLS.load(Ordering::Relaxed), Ordering::Relaxed);
        *d = ReconnectData::from_le_bytes(kani::any());
    }

    /// C05 (complete over all proofs, challenges, keys): the verdict is whole-proof equality with the value computed from
    /// (username, client data, *current* challenge, session key); the challenge is re-drawn exactly once, after the computation,
    /// on both verdicts; username and key are untouched.
    fn c05_verify_reconnection_attempt_body(with_covers: bool) -> bool {
        let name = verif_make(kani::any(), kani::any());
        let key: [u8; 40] = kani::any();
        let chal: [u8; 16] = kani::any();
        let cd: [u8; 16] = kani::any();
        let presented: [u8; 20] = kani::any();
        let computed: [u8; 20] = kani::any();
        let mut i = 0;
        while i < 20 { PROOF[i].store(computed[i], Ordering::Relaxed); i += 1; }
        i = 0;
        while i < 16 { EXPECT[i].store(cd[i], Ordering::Relaxed); EXPECT[16 + i].store(chal[i], Ordering::Relaxed); i += 1; }
        i = 0;
        while i < 40 { EXPECT[32 + i].store(key[i], Ordering::Relaxed); i += 1; }
        let mut s = SrpServer { username: name.clone(), session_key: SessionKey::from_le_bytes(key), reconnect_challenge_data: ReconnectData::from_le_bytes(chal) };
        let r = s.verify_reconnection_attempt(cd, presented);
        let mut same = true;
        i = 0;
        while i < 20 { if presented[i] != computed[i] { same = false; } i += 1; }
        let mut ok = r == same;
        ok &= CALLS.load(Ordering::Relaxed) == 1 && ARGS_OK.load(Ordering::Relaxed) == 1;
        ok &= RAND_CALLS.load(Ordering::Relaxed) == 1 && RAND_AFTER_HASH.load(Ordering::Relaxed) == 1;
        ok &= s.username == name && *s.session_key.as_le_bytes() == key;
        if with_covers { kani::cover!(same); kani::cover!(!same); }
        ok
    }
    #[kani::proof]
    #[kani::unwind(42)]
    #[kani::stub(crate::srp_internal::calculate_reconnect_proof, reconnect_proof_stub)]
    #[kani::stub(crate::key::ReconnectData::randomize_data, randomize_stub)]
    pub fn c05_verify_reconnection_attempt() { assert!(c05_verify_reconnection_attempt_body(true), "C05 verify_reconnection_attempt: whole-proof comparison against the current challenge; challenge refreshed once, afterwards, on both verdicts"); }
    /// same harness with the contract's negation as a cover: yields the concrete counterexample when the contract fails
    #[kani::proof]
    #[kani::unwind(42)]
    #[kani::stub(crate::srp_internal::calculate_reconnect_proof, reconnect_proof_stub)]
    #[kani::stub(crate::key::ReconnectData::randomize_data, randomize_stub)]
    pub fn c05_verify_reconnection_attempt_cex() { let ok = c05_verify_reconnection_attempt_body(false); kani::cover!(!ok, "counterexample"); }

    // ---- C02: into_server glue -------------------------------------------------------------------------------------------
    static M1: [AtomicU8; 20] = [const { AtomicU8::new(0) }; 20];
    static M2: [AtomicU8; 20] = [const { AtomicU8::new(0) }; 20];
    static KEY: [AtomicU8; 40] = [const { AtomicU8::new(0) }; 40];
    fn session_key_stub(_a: &PublicKey, _b: &PublicKey, _v: &Verifier, _p: &PrivateKey) -> SessionKey {
        let mut k = [0u8; 40]; let mut i = 0; while i < 40 { k[i] = KEY[i].load(Ordering::Relaxed); i += 1; } SessionKey::from_le_bytes(k)
    }
    fn client_proof_stub(_u: &NormalizedString, _k: &SessionKey, _a: &PublicKey, _b: &PublicKey, _s: &Salt) -> Proof {
        let mut p = [0u8; 20]; let mut i = 0; while i < 20 { p[i] = M1[i].load(Ordering::Relaxed); i += 1; } Proof::from_le_bytes(p)
    }
    fn server_proof_stub(_a: &PublicKey, m1: &Proof, _k: &SessionKey) -> Proof {
        // must be computed from the *server's own* M1
        let mut same = true; let mut i = 0; while i < 20 { same &= m1.as_le_bytes()[i] == M1[i].load(Ordering::Relaxed); i += 1; }
        ARGS_OK.store(same as usize, Ordering::Relaxed);
        let mut p = [0u8; 20]; i = 0; while i < 20 { p[i] = M2[i].load(Ordering::Relaxed); i += 1; } Proof::from_le_bytes(p)
    }
    fn randomized_stub() -> ReconnectData { ReconnectData::from_le_bytes(kani::any()) }

    /// C02 (complete over all presented and computed proofs): Ok iff all 20 bytes agree; Err carries both proofs; no session otherwise;
    /// Ok returns the server proof computed over the server's own M1 and the session key just derived.
    fn c02_into_server_body(with_covers: bool) -> bool {
        let name = verif_make(kani::any(), kani::any());
        let m1: [u8; 20] = kani::any(); let m2: [u8; 20] = kani::any(); let key: [u8; 40] = kani::any();
        let presented: [u8; 20] = kani::any();
        let mut i = 0;
        while i < 20 { M1[i].store(m1[i], Ordering::Relaxed); M2[i].store(m2[i], Ordering::Relaxed); i += 1; }
        i = 0;
        while i < 40 { KEY[i].store(key[i], Ordering::Relaxed); i += 1; }
        let a: [u8; 32] = kani::any(); let b: [u8; 32] = kani::any();
        let a_pub = match PublicKey::from_le_bytes(a) { Ok(p) => p, Err(_) => return true };
        let b_pub = match PublicKey::from_le_bytes(b) { Ok(p) => p, Err(_) => return true };
        let p = SrpProof { username: name.clone(), server_public_key: b_pub, salt: Salt::from_le_bytes(kani::any()),
                           server_private_key: PrivateKey::from_le_bytes(kani::any()), password_verifier: Verifier::from_le_bytes(kani::any()) };
        let mut same = true;
        i = 0;
        while i < 20 { if presented[i] != m1[i] { same = false; } i += 1; }
        let mut ok = true;
        match p.into_server(a_pub, presented) {
            Ok((s, sp)) => { ok &= same && sp == m2 && *s.session_key() == key && s.username == name && ARGS_OK.load(Ordering::Relaxed) == 1; }
            Err(e) => { ok &= !same && e.client_proof == presented && e.server_proof == m1; }
        }
        if with_covers { kani::cover!(same); kani::cover!(!same); }
        ok
    }
    #[kani::proof]
    #[kani::unwind(42)]
    #[kani::stub(crate::srp_internal::calculate_session_key, session_key_stub)]
    #[kani::stub(crate::srp_internal::calculate_client_proof, client_proof_stub)]
    #[kani::stub(crate::srp_internal::calculate_server_proof, server_proof_stub)]
    #[kani::stub(crate::key::ReconnectData::randomized, randomized_stub)]
    pub fn c02_into_server() { assert!(c02_into_server_body(true), "C02 into_server: Ok iff whole-proof equality; Err carries both proofs"); }
    /// same harness with the contract's negation as a cover: yields the concrete counterexample when the contract fails
    #[kani::proof]
    #[kani::unwind(42)]
    #[kani::stub(crate::srp_internal::calculate_session_key, session_key_stub)]
    #[kani::stub(crate::srp_internal::calculate_client_proof, client_proof_stub)]
    #[kani::stub(crate::srp_internal::calculate_server_proof, server_proof_stub)]
    #[kani::stub(crate::key::ReconnectData::randomized, randomized_stub)]
    pub fn c02_into_server_cex() { let ok = c02_into_server_body(false); kani::cover!(!ok, "counterexample"); }
}
