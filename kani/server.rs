// Appended (add-only) to src/server.rs of the scratch copy.
#[cfg(kani)]
pub mod verif_kani {
    use super::*;
    #[allow(unused_imports)] use crate::key::{PrivateKey, Proof, PublicKey, ReconnectData, Salt, SessionKey, Verifier}; #[allow(unused_imports)] use crate::normalized_string::NormalizedString;
    use core::sync::atomic::{AtomicU8, AtomicUsize, Ordering};
    use crate::normalized_string::verif_kani::verif_make;

    // ---- stubs that stand for callees by their (separately proved) contracts and record what they were given ----------
    static CALLS: AtomicUsize = AtomicUsize::new(0);
    static RAND_CALLS: AtomicUsize = AtomicUsize::new(0);
    static RAND_AFTER_HASH: AtomicUsize = AtomicUsize::new(0);
    static PROOF: [AtomicU8; 20] = [const { AtomicU8::new(0) }; 20];
    static ARGS_OK: AtomicUsize = AtomicUsize::new(0);
    static EXPECT: [AtomicU8; 72] = [const { AtomicU8::new(0) }; 72];   // client_data | server_data | session key

    fn reconnect_proof_stub(username: &NormalizedString, client_data: &ReconnectData, server_data: &ReconnectData, session_key: &SessionKey) -> Proof {
        // the proof is an unconstrained 20-byte value fixed before the call (so the caller cannot influence it)
        let mut same = true;
        let mut i = 0;
        while i < 16 { same &= client_data.as_le_bytes()[i] == EXPECT[i].load(Ordering::Relaxed); same &= server_data.as_le_bytes()[i] == EXPECT[16 + i].load(Ordering::Relaxed); i += 1; }
        i = 0;
        while i < 40 { same &= session_key.as_le_bytes()[i] == EXPECT[32 + i].load(Ordering::Relaxed); i += 1; }
        ARGS_OK.store(same as usize, Ordering::Relaxed);
        CALLS.store(CALLS.load(Ordering::Relaxed) + 1, Ordering::Relaxed);
        let mut p = [0u8; 20];
        i = 0;
        while i < 20 { p[i] = PROOF[i].load(Ordering::Relaxed); i += 1; }
        Proof::from_le_bytes(p)
    }
    fn randomize_stub(d: &mut ReconnectData) {
        RAND_CALLS.store(RAND_CALLS.load(Ordering::Relaxed) + 1, Ordering::Relaxed);
        RAND_AFTER_HASH.store(CALLS.load(Ordering::Relaxed), Ordering::Relaxed);
        *d = ReconnectData::from_le_bytes(kani::any());
    }

    /// C05 (complete over all proofs, challenges, keys): the verdict is whole-proof equality with the value computed from
    /// (username, client data, *current* challenge, session key); the challenge is re-drawn exactly once, after the computation,
    /// on both verdicts; username and key are untouched.
    fn c05_verify_reconnection_attempt_body(with_covers: bool) -> bool {
        let name = verif_make(kani::any(), kani::any());
        let key: [u8; 40] = kani::any();
        let chal: [u8; 16] = kani::any();
        let cd: [u8; 16] = kani::any();
        let presented: [u8; 20] = kani::any();
        let computed: [u8; 20] = kani::any();
        let mut i = 0;
        while i < 20 { PROOF[i].store(computed[i], Ordering::Relaxed); i += 1; }
        i = 0;
        while i < 16 { EXPECT[i].store(cd[i], Ordering::Relaxed); EXPECT[16 + i].store(chal[i], Ordering::Relaxed); i += 1; }
        i = 0;
        while i < 40 { EXPECT[32 + i].store(key[i], Ordering::Relaxed); i += 1; }
        let mut s = SrpServer { username: name.clone(), session_key: SessionKey::from_le_bytes(key), reconnect_challenge_data: ReconnectData::from_le_bytes(chal) };
        let r = s.verify_reconnection_attempt(cd, presented);
        let mut same = true;
        i = 0;
        while i < 20 { if presented[i] != computed[i] { same = false; } i += 1; }
        let mut ok = r == same;
        ok &= CALLS.load(Ordering::Relaxed) == 1 && ARGS_OK.load(Ordering::Relaxed) == 1;
        ok &= RAND_CALLS.load(Ordering::Relaxed) == 1 && RAND_AFTER_HASH.load(Ordering::Relaxed) == 1;
        ok &= s.username == name && *s.session_key.as_le_bytes() == key;
        if with_covers { kani::cover!(same); kani::cover!(!same); }
        ok
    }
    #[kani::proof]
    #[kani::unwind(42)]
    #[kani::stub(crate::srp_internal::calculate_reconnect_proof, reconnect_proof_stub)]
    #[kani::stub(crate::key::ReconnectData::randomize_data, randomize_stub)]
    pub fn c05_verify_reconnection_attempt() { assert!(c05_verify_reconnection_attempt_body(true), "C05 verify_reconnection_attempt: whole-proof comparison against the current challenge; challenge refreshed once, afterwards, on both verdicts"); }
    /// same harness with the contract's negation as a cover: yields the concrete counterexample when the contract fails
    #[kani::proof]
    #[kani::unwind(42)]
    #[kani::stub(crate::srp_internal::calculate_reconnect_proof, reconnect_proof_stub)]
    #[kani::stub(crate::key::ReconnectData::randomize_data, randomize_stub)]
    pub fn c05_verify_reconnection_attempt_cex() { let ok = c05_verify_reconnection_attempt_body(false); kani::cover!(!ok, "counterexample"); }

    // ---- C02: into_server glue -------------------------------------------------------------------------------------------
    static M1: [AtomicU8; 20] = [const { AtomicU8::new(0) }; 20];
    static M2: [AtomicU8; 20] = [const { AtomicU8::new(0) }; 20];
    static KEY: [AtomicU8; 40] = [const { AtomicU8::new(0) }; 40];
    fn session_key_stub(_a: &PublicKey, _b: &PublicKey, _v: &Verifier, _p: &PrivateKey) -> SessionKey {
        let mut k = [0u8; 40]; let mut i = 0; while i < 40 { k[i] = KEY[i].load(Ordering::Relaxed); i += 1; } SessionKey::from_le_bytes(k)
    }
    fn client_proof_stub(_u: &NormalizedString, _k: &SessionKey, _a: &PublicKey, _b: &PublicKey, _s: &Salt) -> Proof {
        let mut p = [0u8; 20]; let mut i = 0; while i < 20 { p[i] = M1[i].load(Ordering::Relaxed); i += 1; } Proof::from_le_bytes(p)
    }
    fn server_proof_stub(_a: &PublicKey, m1: &Proof, _k: &SessionKey) -> Proof {
        // must be computed from the *server's own* M1
        let mut same = true; let mut i = 0; while i < 20 { same &= m1.as_le_bytes()[i] == M1[i].load(Ordering::Relaxed); i += 1; }
        ARGS_OK.store(same as usize, Ordering::Relaxed);
        let mut p = [0u8; 20]; i = 0; while i < 20 { p[i] = M2[i].load(Ordering::Relaxed); i += 1; } Proof::from_le_bytes(p)
    }
    fn randomized_stub() -> ReconnectData { ReconnectData::from_le_bytes(kani::any()) }

    /// C02 (complete over all presented and computed proofs): Ok iff all 20 bytes agree; Err carries both proofs; no session otherwise;
    /// Ok returns the server proof computed over the server's own M1 and the session key just derived.
    fn c02_into_server_body(with_covers: bool) -> bool {
        let name = verif_make(kani::any(), kani::any());
        let m1: [u8; 20] = kani::any(); let m2: [u8; 20] = kani::any(); let key: [u8; 40] = kani::any();
        let presented: [u8; 20] = kani::any();
        let mut i = 0;
        while i < 20 { M1[i].store(m1[i], Ordering::Relaxed); M2[i].store(m2[i], Ordering::Relaxed); i += 1; }
        i = 0;
        while i < 40 { KEY[i].store(key[i], Ordering::Relaxed); i += 1; }
        let a: [u8; 32] = kani::any(); let b: [u8; 32] = kani::any();
        let a_pub = match PublicKey::from_le_bytes(a) { Ok(p) => p, Err(_) => return true };
        let b_pub = match PublicKey::from_le_bytes(b) { Ok(p) => p, Err(_) => return true };
        let p = SrpProof { username: name.clone(), server_public_key: b_pub, salt: Salt::from_le_bytes(kani::any()),
                           server_private_key: PrivateKey::from_le_bytes(kani::any()), password_verifier: Verifier::from_le_bytes(kani::any()) };
        let mut same = true;
        i = 0;
        while i < 20 { if presented[i] != m1[i] { same = false; } i += 1; }
        let mut ok = true;
        match p.into_server(a_pub, presented) {
            Ok((s, sp)) => { ok &= same && sp == m2 && *s.session_key() == key && s.username == name && ARGS_OK.load(Ordering::Relaxed) == 1; }
            Err(e) => { ok &= !same && e.client_proof == presented && e.server_proof == m1; }
        }
        if with_covers { kani::cover!(same); kani::cover!(!same); }
        ok
    }
    #[kani::proof]
    #[kani::unwind(42)]
    #[kani::stub(crate::srp_internal::calculate_session_key, session_key_stub)]
    #[kani::stub(crate::srp_internal::calculate_client_proof, client_proof_stub)]
    #[kani::stub(crate::srp_internal::calculate_server_proof, server_proof_stub)]
    #[kani::stub(crate::key::ReconnectData::randomized, randomized_stub)]
    pub fn c02_into_server() { assert!(c02_into_server_body(true), "C02 into_server: Ok iff whole-proof equality; Err carries both proofs"); }
    /// same harness with the contract's negation as a cover: yields the concrete counterexample when the contract fails
    #[kani::proof]
    #[kani::unwind(42)]
    #[kani::stub(crate::srp_internal::calculate_session_key, session_key_stub)]
    #[kani::stub(crate::srp_internal::calculate_client_proof, client_proof_stub)]
    #[kani::stub(crate::srp_internal::calculate_server_proof, server_proof_stub)]
    #[kani::stub(crate::key::ReconnectData::randomized, randomized_stub)]
    pub fn c02_into_server_cex() { let ok = c02_into_server_body(false); kani::cover!(!ok, "counterexample"); }
}

// Bounded native search over the public login / reconnect API against an independent num-bigint/SHA-1 implementation of WoW SRP6
// (counterexample finder for C01, C02, C05; stand-in when a server.rs / client.rs function leaves the verifiable fragment)
#[cfg(all(test, gtker_wow_srp_verif))]
mod verif_search {
    use super::*;
    use crate::client::SrpClientChallenge;
    use num_bigint::{BigInt, Sign};
    use sha1::{Digest, Sha1};
    struct Rng(u64);
    impl Rng { fn next(&mut self) -> u64 { self.0 ^= self.0 << 13; self.0 ^= self.0 >> 7; self.0 ^= self.0 << 17; self.0 } fn bytes<const N: usize>(&mut self) -> [u8; N] { let mut b = [0u8; N]; for x in b.iter_mut() { *x = self.next() as u8; } b } }
    fn h(parts: &[&[u8]]) -> [u8; 20] { let mut d = Sha1::new(); for p in parts { d.update(p); } d.finalize().into() }
    fn le(b: &[u8]) -> BigInt { BigInt::from_bytes_le(Sign::Plus, b) }
    fn pad32(v: &BigInt) -> [u8; 32] { let (_, b) = v.to_bytes_le(); let mut o = [0u8; 32]; o[..b.len()].copy_from_slice(&b); o }
    fn ref_interleave(s: &[u8; 32]) -> [u8; 40] {
        let mut t: &[u8] = &s[..];
        while !t.is_empty() && t[0] == 0 { t = &t[1..]; }
        if t.len() % 2 == 1 { t = &t[1..]; }
        let ev: Vec<u8> = t.iter().step_by(2).copied().collect();
        let od: Vec<u8> = t.iter().skip(1).step_by(2).copied().collect();
        let (g, hh) = (h(&[&ev]), h(&[&od]));
        let mut k = [0u8; 40];
        for i in 0..20 { k[2 * i] = g[i]; k[2 * i + 1] = hh[i]; }
        k
    }
    fn flip<const N: usize>(mut a: [u8; N], bit: usize) -> [u8; N] { a[bit / 8] ^= 1 << (bit % 8); a }

    #[test]
    fn verif_search_c01_api() {
        let seed = std::env::var("VERIF_SEED").ok().and_then(|s| s.parse::<u64>().ok()).unwrap_or(0) ^ 0x9E3779B97F4A7C15;
        let mut rng = Rng(seed);
        let nn = le(&crate::LARGE_SAFE_PRIME_LITTLE_ENDIAN);
        let g = BigInt::from(7);
        let (hn, hg) = (h(&[&crate::LARGE_SAFE_PRIME_LITTLE_ENDIAN]), h(&[&[7u8]]));
        let mut xh = [0u8; 20]; for i in 0..20 { xh[i] = hn[i] ^ hg[i]; }
        let mut n = 0u64;
        for round in 0..120 {
            let ulen = 1 + (rng.next() % 16) as usize; let plen = 1 + (rng.next() % 16) as usize;
            let uname: String = (0..ulen).map(|_| (0x20 + (rng.next() % 0x5f) as u8) as char).collect();
            let pass: String = (0..plen).map(|_| (0x20 + (rng.next() % 0x5f) as u8) as char).collect();
            let (uu, pp) = (uname.to_ascii_uppercase(), pass.to_ascii_uppercase());
            let salt = rng.bytes::<32>();
            let mut b = rng.bytes::<32>();
            if round % 5 == 0 { b = [0u8; 32]; b[0] = (round / 5) as u8; }
            n += 1;
            let fail = |what: &str| println!("REPLAY-FAIL c01_api {} (round {}, user {:?}, pass {:?}, b {:02x?})", what, round, uname, pass, &b[..4]);
            // registration, export / re-import
            let ver = SrpVerifier::with_specific_salt(NormalizedString::new(&uname).unwrap(), NormalizedString::new(&pass).unwrap(), &Salt::from_le_bytes(salt));
            let x = h(&[&salt, &h(&[uu.as_bytes(), b":", pp.as_bytes()])]);
            let v = g.modpow(&le(&x), &nn);
            if *ver.password_verifier() != pad32(&v) || *ver.salt() != salt || ver.username() != uu { fail("registration record differs from the definition"); return; }
            let again = SrpVerifier::from_database_values(NormalizedString::new(ver.username()).unwrap(), *ver.password_verifier(), *ver.salt());
            if again != ver { fail("export / re-import of the account record changes it"); return; }
            // server challenge
            let proof = match again.with_specific_private_key(PrivateKey::from_le_bytes(b)) { Ok(p) => p, Err(_) => continue };
            let bpub = (BigInt::from(3) * &v + g.modpow(&le(&b), &nn)) % &nn;
            if *proof.server_public_key() != pad32(&bpub) || *proof.salt() != salt { fail("server public key / salt differ from the definition"); return; }
            // client, credentials typed in another letter case
            let swap = |s: &str| -> String { s.chars().map(|c| if c.is_ascii_uppercase() { c.to_ascii_lowercase() } else { c.to_ascii_uppercase() }).collect() };
            let client = SrpClientChallenge::new(NormalizedString::new(swap(&uname)).unwrap(), NormalizedString::new(swap(&pass)).unwrap(), 7, crate::LARGE_SAFE_PRIME_LITTLE_ENDIAN,
                                                 PublicKey::from_le_bytes(*proof.server_public_key()).unwrap(), salt);
            let a_pub = *client.client_public_key();
            let uh = h(&[&a_pub, &pad32(&bpub)]);
            let s = (le(&a_pub) * v.modpow(&le(&uh), &nn)).modpow(&le(&b), &nn);
            let k = ref_interleave(&pad32(&s));
            let m1 = h(&[&xh, &h(&[uu.as_bytes()]), &salt, &a_pub, &pad32(&bpub), &k]);
            let m2 = h(&[&a_pub, &m1, &k]);
            if *client.client_proof() != m1 { fail("client proof is not the WoW SRP6 value"); return; }
            // altered proof is refused and both proofs are reported
            let bit = (rng.next() % 160) as usize;
            match proof.clone().into_server(PublicKey::from_le_bytes(a_pub).unwrap(), flip(m1, bit)) {
                Ok(_) => { fail(&format!("server accepted a client proof with bit {} flipped", bit)); return; }
                Err(e) => { if e.client_proof != flip(m1, bit) || e.server_proof != m1 { fail("MatchProofsError does not carry both proofs"); return; } }
            }
            let (mut server, sp) = match proof.into_server(PublicKey::from_le_bytes(a_pub).unwrap(), *client.client_proof()) { Ok(r) => r, Err(_) => { fail("server rejected the honest client"); return; } };
            if sp != m2 || *server.session_key() != k { fail("server proof / session key differ from the definition"); return; }
            if client.clone().verify_server_proof(flip(m2, bit)).is_ok() { fail(&format!("client accepted a server proof with bit {} flipped", bit)); return; }
            let c = match client.verify_server_proof(sp) { Ok(c) => c, Err(_) => { fail("client rejected the honest server"); return; } };
            if *c.session_key() != k { fail("session keys differ"); return; }
            // reconnects
            let mut prev: Option<([u8; 16], [u8; 20])> = None;
            for attempt in 0..4 {
                let chal = *server.reconnect_challenge_data();
                let r = c.calculate_reconnect_values(chal);
                if r.proof != h(&[uu.as_bytes(), &r.challenge_data, &chal, &k]) { fail("reconnect proof is not H(U | client data | server data | K)"); return; }
                if attempt == 2 {
                    if server.verify_reconnection_attempt(r.challenge_data, flip(r.proof, bit)) { fail("altered reconnect proof accepted"); return; }
                    if *server.reconnect_challenge_data() == chal { fail("challenge not replaced after a rejected attempt"); return; }
                    continue;
                }
                if !server.verify_reconnection_attempt(r.challenge_data, r.proof) { fail("legitimate reconnect rejected"); return; }
                if *server.reconnect_challenge_data() == chal { fail("challenge not replaced after an accepted attempt"); return; }
                if let Some((cd, p)) = prev { if server.verify_reconnection_attempt(cd, p) { fail("replayed reconnect pair accepted"); return; } }
                prev = Some((r.challenge_data, r.proof));
            }
        }
        println!("REPLAY-STATS c01_api inputs={} all-ok", n);
    }

    /// C15 fallback (bounded, statistical in the weakest possible sense): over 64 draws from each documented source of randomness every byte
    /// position takes at least two values.  A fixed, reused or partially refreshed value fails this; a correct generator fails it with
    /// probability below 2^-490 per byte position.  (Distinctness of whole values is not asserted: a 32-bit seed may legitimately repeat.)
    #[test]
    fn verif_search_c15_draws() {
        let mut n = 0u64;
        fn varies(name: &str, draws: &[Vec<u8>]) -> bool {
            let len = draws[0].len();
            for pos in 0..len { if draws.iter().all(|d| d[pos] == draws[0][pos]) { println!("REPLAY-FAIL c15_draws byte {} of {} stayed {:#04x} over {} draws", pos, name, draws[0][pos], draws.len()); return false; } }
            true
        }
        macro_rules! source { ($name:expr, $e:expr) => { { let d: Vec<Vec<u8>> = (0..64).map(|_| { let v: Vec<u8> = $e; v }).collect(); n += 64; if !varies($name, &d) { return; } } } }
        source!("Salt::randomized", Salt::randomized().as_le_bytes().to_vec());
        source!("PrivateKey::randomized", PrivateKey::randomized().as_le_bytes().to_vec());
        source!("ReconnectData::randomized", ReconnectData::randomized().as_le_bytes().to_vec());
        source!("Salt::default", Salt::default().as_le_bytes().to_vec());
        source!("PrivateKey::default", PrivateKey::default().as_le_bytes().to_vec());
        source!("ReconnectData::default", ReconnectData::default().as_le_bytes().to_vec());
        source!("ReconnectData::randomize_data", { let mut r = ReconnectData::from_le_bytes([0x5a; 16]); r.randomize_data(); r.as_le_bytes().to_vec() });
        source!("pin::get_pin_grid_seed", crate::pin::get_pin_grid_seed().to_le_bytes().to_vec());
        source!("pin::get_pin_salt", crate::pin::get_pin_salt().to_vec());
        source!("integrity::get_salt_value", crate::integrity::get_salt_value().to_vec());
        source!("matrix_card::get_matrix_card_seed", crate::matrix_card::get_matrix_card_seed().to_le_bytes().to_vec());
        source!("vanilla ProofSeed::new", crate::vanilla_header::ProofSeed::new().seed().to_le_bytes().to_vec());
        source!("vanilla ProofSeed::default", crate::vanilla_header::ProofSeed::default().seed().to_le_bytes().to_vec());
        source!("tbc ProofSeed::new", crate::tbc_header::ProofSeed::new().seed().to_le_bytes().to_vec());
        source!("tbc ProofSeed::default", crate::tbc_header::ProofSeed::default().seed().to_le_bytes().to_vec());
        source!("wrath ProofSeed::new", crate::wrath_header::ProofSeed::new().seed().to_le_bytes().to_vec());
        source!("wrath ProofSeed::default", crate::wrath_header::ProofSeed::default().seed().to_le_bytes().to_vec());
        // matrix card data: every cell digit is in 0..=9 and every position varies
        { let d: Vec<Vec<u8>> = (0..64).map(|_| crate::matrix_card::MatrixCard::new(2, 3, 4).data().to_vec()).collect(); n += 64;
          if d.iter().any(|c| c.len() != 24 || c.iter().any(|x| *x > 9)) { println!("REPLAY-FAIL c15_draws MatrixCard::new(2, 3, 4) does not hold 24 digits in 0..=9"); return; }
          if !varies("MatrixCard::new data", &d) { return; } }
        // registration salt, server ephemeral key (seen through B), reconnect challenge, client ephemeral key (seen through A), client reconnect data
        let (u, p) = (|| NormalizedString::new("ALICE").unwrap(), || NormalizedString::new("PASSWORD123").unwrap());
        source!("SrpVerifier::from_username_and_password salt", SrpVerifier::from_username_and_password(u(), p()).salt().to_vec());
        let ver = SrpVerifier::from_username_and_password(u(), p());
        let record = (*ver.password_verifier(), *ver.salt());
        source!("SrpVerifier::into_proof server public key", SrpVerifier::from_database_values(u(), record.0, record.1).into_proof().server_public_key().to_vec());
        let session = || {
            let proof = SrpVerifier::from_database_values(u(), record.0, record.1).into_proof();
            let client = SrpClientChallenge::new(u(), p(), 7, crate::LARGE_SAFE_PRIME_LITTLE_ENDIAN, PublicKey::from_le_bytes(*proof.server_public_key()).unwrap(), record.1);
            let a = *client.client_public_key();
            let (server, sp) = proof.into_server(PublicKey::from_le_bytes(a).unwrap(), *client.client_proof()).ok().unwrap();
            (server, client.verify_server_proof(sp).ok().unwrap(), a)
        };
        source!("SrpClientChallenge::new client public key", session().2.to_vec());
        source!("SrpProof::into_server reconnect challenge", session().0.reconnect_challenge_data().to_vec());
        { let (mut server, client, _) = session();
          source!("reconnect challenge after a rejected attempt", { let _ = server.verify_reconnection_attempt([0u8; 16], [0u8; 20]); server.reconnect_challenge_data().to_vec() });
          source!("reconnect challenge after an accepted attempt", { let r = client.calculate_reconnect_values(*server.reconnect_challenge_data()); let _ = server.verify_reconnection_attempt(r.challenge_data, r.proof); server.reconnect_challenge_data().to_vec() });
          source!("SrpClient::calculate_reconnect_values client data", client.calculate_reconnect_values([7u8; 16]).challenge_data.to_vec()); }
        println!("REPLAY-STATS c15_draws inputs={} all-ok", n);
    }
}
