// Appended (add-only) to src/wrath_header/mod.rs of the scratch copy.
#[cfg(kani)]
pub mod verif_kani {
    use super::*;
    use crate::rc4::verif_kani::{verif_rc4, verif_rc4_parts};
    use super::inner_crypto::verif_kani::{verif_inner, verif_inner_rc4};
    use super::encrypt::verif_kani::{verif_server_enc, verif_server_enc_inner};
    use super::decrypt::verif_kani::{verif_client_dec, verif_client_dec_parts};

    // InnerCrypto::apply replaced by its (Verus-proved) contract: XOR with the next bytes of *some* keystream and advance by the
    // number of bytes. The keystream is an unconstrained 16-byte array; the position lives in the Rc4 counter `i`.
    use core::sync::atomic::{AtomicU8, Ordering};
    static KS: [AtomicU8; 16] = [const { AtomicU8::new(0) }; 16];
    pub fn apply_stub(c: &mut InnerCrypto, data: &mut [u8]) {
        let (st, i, j) = { let (s, i, j) = verif_rc4_parts(verif_inner_rc4(c)); (*s, i, j) };
        let mut pos = i;
        let mut k = 0;
        while k < data.len() { data[k] ^= KS[(pos & 15) as usize].load(Ordering::Relaxed); pos = pos.wrapping_add(1); k += 1; }
        *c = verif_inner(verif_rc4(st, pos, j));
    }
    fn any_keystream() { let ks: [u8; 16] = kani::any(); let mut k = 0; while k < 16 { KS[k].store(ks[k], Ordering::Relaxed); k += 1; } }
    use super::inner_crypto::InnerCrypto;

    fn same_rc4(a: &crate::rc4::Rc4, b: &crate::rc4::Rc4) -> bool {
        let (sa, ia, ja) = verif_rc4_parts(a);
        let (sb, ib, jb) = verif_rc4_parts(b);
        let p: u8 = kani::any();
        ia == ib && ja == jb && sa[p as usize] == sb[p as usize]
    }

    /// a reader that can deliver only the first `avail` bytes of `data` and then fails with an arbitrary error kind
    pub struct FaultyReader { pub data: [u8; 8], pub pos: usize, pub avail: usize }
    impl std::io::Read for FaultyReader {
        fn read(&mut self, buf: &mut [u8]) -> std::io::Result<usize> {
            if self.pos >= self.avail { return Err(std::io::Error::from(std::io::ErrorKind::ConnectionReset)); }
            // arbitrary fragmentation: hand out at least one byte
            let mut n: usize = kani::any();
            kani::assume(n >= 1 && n <= buf.len() && n <= self.avail - self.pos);
            let mut k = 0;
            while k < n { buf[k] = self.data[self.pos + k]; k += 1; }
            self.pos += n;
            Ok(n)
        }
    }

    /// C10 (complete: every keystream [InnerCrypto::apply replaced by its proved contract], every size <= 0x7FFFFF, every opcode): the server header of either length is decoded by both
    /// client paths to the same size and opcode, both ends consume the same number of keystream bytes.
    #[kani::proof]
    #[kani::unwind(18)]
    #[kani::stub(crate::wrath_header::inner_crypto::InnerCrypto::apply, apply_stub)]
    pub fn c10_server_header_roundtrip() {
        any_keystream();
        let state: [u8; 256] = [0; 256];
        let i0: u8 = kani::any(); kani::assume(i0 < 8); let j0: u8 = 0;
        let size: u32 = kani::any(); kani::assume(size <= 0x7FFFFF);
        let opcode: u16 = kani::any();
        let stash: [u8; 4] = kani::any();
        let mut srv = verif_server_enc(verif_inner(verif_rc4(state, i0, j0)));
        let mut wire = [0u8; 8];
        let n;
        {
            let h = srv.encrypt_server_header(size, opcode);
            n = h.len();
            let mut k = 0;
            while k < 5 { if k < n { wire[k] = h[k]; } k += 1; }
        }
        let mut ok = n == (if size > 0x7FFF { 5 } else { 4 });
        // path 1: attempt, then one more byte
        let mut c1 = verif_client_dec(verif_inner(verif_rc4(state, i0, j0)), stash);
        let got = match c1.attempt_decrypt_server_header([wire[0], wire[1], wire[2], wire[3]]) {
            WrathServerAttempt::Header(h) => { ok &= n == 4; h }
            WrathServerAttempt::AdditionalByteRequired => { ok &= n == 5; c1.decrypt_large_server_header(wire[4]) }
        };
        ok &= got.size == size && got.opcode == opcode;
        ok &= same_rc4(verif_inner_rc4(verif_client_dec_parts(&c1).0), verif_inner_rc4(verif_server_enc_inner(&srv)));
        // path 2: read-based call, bytes delivered in arbitrary fragments
        let mut c2 = verif_client_dec(verif_inner(verif_rc4(state, i0, j0)), stash);
        let mut rd = FaultyReader { data: wire, pos: 0, avail: n };
        match c2.read_and_decrypt_server_header(&mut rd) {
            Ok(h) => { ok &= h.size == size && h.opcode == opcode && rd.pos == n; }
            Err(_) => { ok = false; }
        }
        ok &= same_rc4(verif_inner_rc4(verif_client_dec_parts(&c2).0), verif_inner_rc4(verif_server_enc_inner(&srv)));
        kani::cover!(size == 0x8000);
        kani::cover!(size == 0x7FFF);
        assert!(ok, "C10 wrath server header round trip on both client paths");
    }

    /// C11 (complete over keystreams/headers/fault offsets 0..=4; InnerCrypto::apply replaced by its proved contract): a reader failing before the header is complete gives Err and leaves
    /// the decrypter untouched (offsets 0..3) or exactly as after the 4-byte attempt (offset 4 of a long header), so that the
    /// missing byte supplied later completes the header.
    #[kani::proof]
    #[kani::unwind(18)]
    #[kani::stub(crate::wrath_header::inner_crypto::InnerCrypto::apply, apply_stub)]
    pub fn c11_wrath_read_fault() {
        any_keystream();
        let state: [u8; 256] = [0; 256];
        let i0: u8 = kani::any(); kani::assume(i0 < 8); let j0: u8 = 0;
        let size: u32 = kani::any(); kani::assume(size > 0x7FFF && size <= 0x7FFFFF);
        let opcode: u16 = kani::any();
        let stash: [u8; 4] = kani::any();
        let avail: usize = kani::any(); kani::assume(avail <= 4);
        let mut srv = verif_server_enc(verif_inner(verif_rc4(state, i0, j0)));
        let mut wire = [0u8; 8];
        { let h = srv.encrypt_server_header(size, opcode); let mut k = 0; while k < 5 { wire[k] = h[k]; k += 1; } }
        let mut c = verif_client_dec(verif_inner(verif_rc4(state, i0, j0)), stash);
        let mut rd = FaultyReader { data: wire, pos: 0, avail };
        let r = c.read_and_decrypt_server_header(&mut rd);
        let mut ok = r.is_err();
        if avail < 4 {
            let fresh = verif_rc4(state, i0, j0);
            ok &= same_rc4(verif_inner_rc4(verif_client_dec_parts(&c).0), &fresh) && verif_client_dec_parts(&c).1 == stash;
        } else {
            let mut twin = verif_client_dec(verif_inner(verif_rc4(state, i0, j0)), stash);
            let _ = twin.attempt_decrypt_server_header([wire[0], wire[1], wire[2], wire[3]]);
            ok &= same_rc4(verif_inner_rc4(verif_client_dec_parts(&c).0), verif_inner_rc4(verif_client_dec_parts(&twin).0));
            ok &= verif_client_dec_parts(&c).1 == verif_client_dec_parts(&twin).1;
            let h = c.decrypt_large_server_header(wire[4]);
            ok &= h.size == size && h.opcode == opcode;
        }
        kani::cover!(avail == 4);
        kani::cover!(avail == 0);
        assert!(ok, "C11 failed read leaves the Wrath client decrypter untouched / as after the 4-byte attempt");
    }
}
