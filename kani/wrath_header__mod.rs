// Appended (add-only) to src/wrath_header/mod.rs of the scratch copy.
#[cfg(kani)]
pub mod verif_kani {
    use super::*;
    use crate::rc4::verif_kani::{verif_rc4, verif_rc4_parts};
    use super::inner_crypto::verif_kani::{verif_inner, verif_inner_rc4};
    use super::encrypt::verif_kani::{verif_server_enc, verif_server_enc_inner};
    use super::decrypt::verif_kani::{verif_client_dec, verif_client_dec_parts};

    // InnerCrypto::apply replaced by its (Verus-proved) contract: XOR with the next bytes of *some* keystream and advance by the
    // number of bytes. The keystream is an unconstrained 16-byte array; the position lives in the Rc4 counter `i`.
    use core::sync::atomic::{AtomicU8, Ordering};
    static KS: [AtomicU8; 16] = [const { AtomicU8::new(0) }; 16];
    pub fn apply_stub(c: &mut InnerCrypto, data: &mut [u8]) {
        let (st, i, j) = { let (s, i, j) = verif_rc4_parts(verif_inner_rc4(c)); (*s, i, j) };
        let mut pos = i;
        let mut k = 0;
        while k < data.len() { data[k] ^= KS[(pos & 15) as usize].load(Ordering::Relaxed); pos = pos.wrapping_add(1); k += 1; }
        *c = verif_inner(verif_rc4(st, pos, j));
    }
    fn any_keystream() { let ks: [u8; 16] = kani::any(); let mut k = 0; while k < 16 { KS[k].store(ks[k], Ordering::Relaxed); k += 1; } }
    use super::inner_crypto::InnerCrypto;

    /// with InnerCrypto::apply replaced by the keystream stub the cipher state is just the keystream position (kept in `i`)
    fn same_rc4(a: &crate::rc4::Rc4, b: &crate::rc4::Rc4) -> bool {
        let (_sa, ia, ja) = verif_rc4_parts(a);
        let (_sb, ib, jb) = verif_rc4_parts(b);
        ia == ib && ja == jb
    }

    /// a reader that can deliver only the first `avail` bytes of `data` and then fails with an arbitrary error kind
    pub struct FaultyReader { pub data: [u8; 8], pub pos: usize, pub avail: usize }
    impl std::io::Read for FaultyReader {
        fn read(&mut self, buf: &mut [u8]) -> std::io::Result<usize> {
            if self.pos >= self.avail { return Err(std::io::Error::from(std::io::ErrorKind::ConnectionReset)); }
            // arbitrary fragmentation: hand out at least one byte
            let mut n: usize = kani::any();
            kani::assume(n >= 1 && n <= buf.len() && n <= self.avail - self.pos);
            let mut k = 0;
            while k < n { buf[k] = self.data[self.pos + k]; k += 1; }
            self.pos += n;
            Ok(n)
        }
    }

    /// C10 (complete: every keystream [InnerCrypto::apply replaced by its proved contract], every size <= 0x7FFFFF, every opcode): the server header of either length is decoded by both
    /// client paths to the same size and opcode, both ends consume the same number of keystream bytes.
    #[kani::proof]
    #[kani::unwind(18)]
    #[kani::stub(crate::wrath_header::inner_crypto::InnerCrypto::apply, apply_stub)]
    pub fn c10_server_header_roundtrip() {
        any_keystream();
        let state: [u8; 256] = [0; 256];
        let i0: u8 = kani::any(); kani::assume(i0 < 8); let j0: u8 = 0;
        let size: u32 = kani::any(); kani::assume(size <= 0x7FFFFF);
        let opcode: u16 = kani::any();
        let stash: [u8; 4] = kani::any();
        let mut srv = verif_server_enc(verif_inner(verif_rc4(state, i0, j0)));
        let mut wire = [0u8; 8];
        let n;
        {
            let h = srv.encrypt_server_header(size, opcode);
            n = h.len();
            let mut k = 0;
            while k < 5 { if k < n { wire[k] = h[k]; } k += 1; }
        }
        let mut ok = n == (if size > 0x7FFF { 5 } else { 4 });
        // path 1: attempt, then one more byte
        let mut c1 = verif_client_dec(verif_inner(verif_rc4(state, i0, j0)), stash);
        let got = match c1.attempt_decrypt_server_header([wire[0], wire[1], wire[2], wire[3]]) {
            WrathServerAttempt::Header(h) => { ok &= n == 4; h }
            WrathServerAttempt::AdditionalByteRequired => { ok &= n == 5; c1.decrypt_large_server_header(wire[4]) }
        };
        ok &= got.size == size && got.opcode == opcode;
        ok &= same_rc4(verif_inner_rc4(verif_client_dec_parts(&c1).0), verif_inner_rc4(verif_server_enc_inner(&srv)));
        // path 2: read-based call, bytes delivered in arbitrary fragments
        let mut c2 = verif_client_dec(verif_inner(verif_rc4(state, i0, j0)), stash);
        let mut rd = FaultyReader { data: wire, pos: 0, avail: n };
        match c2.read_and_decrypt_server_header(&mut rd) {
            Ok(h) => { ok &= h.size == size && h.opcode == opcode && rd.pos == n; }
            Err(_) => { ok = false; }
        }
        ok &= same_rc4(verif_inner_rc4(verif_client_dec_parts(&c2).0), verif_inner_rc4(verif_server_enc_inner(&srv)));
        kani::cover!(size == 0x8000);
        kani::cover!(size == 0x7FFF);
        assert!(ok, "C10 wrath server header round trip on both client paths");
    }

    /// C11 (complete over keystreams/headers/fault offsets 0..=4; InnerCrypto::apply replaced by its proved contract): a reader failing before the header is complete gives Err and leaves
    /// the decrypter untouched (offsets 0..3) or exactly as after the 4-byte attempt (offset 4 of a long header), so that the
    /// missing byte supplied later completes the header.
    #[kani::proof]
    #[kani::unwind(18)]
    #[kani::stub(crate::wrath_header::inner_crypto::InnerCrypto::apply, apply_stub)]
    pub fn c11_wrath_read_fault() {
        any_keystream();
        let state: [u8; 256] = [0; 256];
        let i0: u8 = kani::any(); kani::assume(i0 < 8); let j0: u8 = 0;
        let size: u32 = kani::any(); kani::assume(size > 0x7FFF && size <= 0x7FFFFF);
        let opcode: u16 = kani::any();
        let stash: [u8; 4] = kani::any();
        let avail: usize = kani::any(); kani::assume(avail <= 4);
        let mut srv = verif_server_enc(verif_inner(verif_rc4(state, i0, j0)));
        let mut wire = [0u8; 8];
        { let h = srv.encrypt_server_header(size, opcode); let mut k = 0; while k < 5 { wire[k] = h[k]; k += 1; } }
        let mut c = verif_client_dec(verif_inner(verif_rc4(state, i0, j0)), stash);
        let mut rd = FaultyReader { data: wire, pos: 0, avail };
        let r = c.read_and_decrypt_server_header(&mut rd);
        let mut ok = r.is_err();
        if avail < 4 {
            let fresh = verif_rc4(state, i0, j0);
            ok &= same_rc4(verif_inner_rc4(verif_client_dec_parts(&c).0), &fresh) && verif_client_dec_parts(&c).1 == stash;
        } else {
            let mut twin = verif_client_dec(verif_inner(verif_rc4(state, i0, j0)), stash);
            let _ = twin.attempt_decrypt_server_header([wire[0], wire[1], wire[2], wire[3]]);
            ok &= same_rc4(verif_inner_rc4(verif_client_dec_parts(&c).0), verif_inner_rc4(verif_client_dec_parts(&twin).0));
            ok &= verif_client_dec_parts(&c).1 == verif_client_dec_parts(&twin).1;
            let h = c.decrypt_large_server_header(wire[4]);
            ok &= h.size == size && h.opcode == opcode;
        }
        kani::cover!(avail == 4);
        kani::cover!(avail == 0);
        assert!(ok, "C11 failed read leaves the Wrath client decrypter untouched / as after the 4-byte attempt");
    }
}

// ---- C06: world-login glue of this module (proof function and key setup replaced by recording stubs = their proved contracts)
#[cfg(kani)]
pub mod verif_kani_c06 {
    use super::*;
    #[allow(unused_imports)] use crate::key::{Proof, SessionKey}; #[allow(unused_imports)] use crate::normalized_string::NormalizedString; #[allow(unused_imports)] use crate::error::MatchProofsError;
    use core::sync::atomic::{AtomicU8, AtomicU32, AtomicUsize, Ordering};
    use crate::normalized_string::verif_kani::verif_make;
    static P: [AtomicU8; 20] = [const { AtomicU8::new(0) }; 20];
    static SS: AtomicU32 = AtomicU32::new(0);
    static CS: AtomicU32 = AtomicU32::new(0);
    static KEY_OK: AtomicUsize = AtomicUsize::new(0);
    static K: [AtomicU8; 40] = [const { AtomicU8::new(0) }; 40];
    static NEW_CALLS: AtomicUsize = AtomicUsize::new(0);
    fn proof_stub(_u: &NormalizedString, k: &SessionKey, server_seed: u32, client_seed: u32) -> Proof {
        SS.store(server_seed, Ordering::Relaxed); CS.store(client_seed, Ordering::Relaxed);
        let mut same = true; let mut i = 0; while i < 40 { same &= k.as_le_bytes()[i] == K[i].load(Ordering::Relaxed); i += 1; }
        KEY_OK.store(same as usize, Ordering::Relaxed);
        let mut p = [0u8; 20]; i = 0; while i < 20 { p[i] = P[i].load(Ordering::Relaxed); i += 1; } Proof::from_le_bytes(p)
    }
    fn new_stub(k: [u8; 40]) -> ServerCrypto {
        let mut same = true; let mut i = 0; while i < 40 { same &= k[i] == K[i].load(Ordering::Relaxed); i += 1; }
        NEW_CALLS.store(if same { 1 } else { 2 }, Ordering::Relaxed);
        { use crate::rc4::verif_kani::verif_rc4; use super::inner_crypto::verif_kani::verif_inner; ServerCrypto { decrypt: super::decrypt::verif_kani::verif_server_dec(verif_inner(verif_rc4([0; 256], 0, 0))), encrypt: super::encrypt::verif_kani::verif_server_enc(verif_inner(verif_rc4([0; 256], 0, 0))) } }
    }
    fn new_stub_c(k: [u8; 40]) -> ClientCrypto {
        let mut same = true; let mut i = 0; while i < 40 { same &= k[i] == K[i].load(Ordering::Relaxed); i += 1; }
        NEW_CALLS.store(if same { 1 } else { 2 }, Ordering::Relaxed);
        { use crate::rc4::verif_kani::verif_rc4; use super::inner_crypto::verif_kani::verif_inner; ClientCrypto { decrypt: super::decrypt::verif_kani::verif_client_dec(verif_inner(verif_rc4([0; 256], 0, 0)), [0; 4]), encrypt: super::encrypt::verif_kani::verif_client_enc(verif_inner(verif_rc4([0; 256], 0, 0))) } }
    }
    fn body(with_covers: bool) -> bool {
        let name = verif_make(kani::any(), kani::any());
        let key: [u8; 40] = kani::any(); let computed: [u8; 20] = kani::any(); let presented: [u8; 20] = kani::any();
        let own: u32 = kani::any(); let peer: u32 = kani::any();
        let mut i = 0; while i < 20 { P[i].store(computed[i], Ordering::Relaxed); i += 1; }
        i = 0; while i < 40 { K[i].store(key[i], Ordering::Relaxed); i += 1; }
        let seed = ProofSeed { seed: own };
        let mut ok = seed.seed() == own;
        let server: bool = kani::any();
        if server {
            let mut same = true; i = 0; while i < 20 { if presented[i] != computed[i] { same = false; } i += 1; }
            match seed.into_server_header_crypto(&name, key, presented, peer) {
                Ok(_) => { ok &= same && NEW_CALLS.load(Ordering::Relaxed) == 1; }
                Err(e) => { ok &= !same && e.client_proof == presented && e.server_proof == computed && NEW_CALLS.load(Ordering::Relaxed) == 0; }
            }
            // the server passes (own seed, client seed)
            ok &= SS.load(Ordering::Relaxed) == own && CS.load(Ordering::Relaxed) == peer && KEY_OK.load(Ordering::Relaxed) == 1;
            if with_covers { kani::cover!(same); kani::cover!(!same); }
        } else {
            let (p, _c) = seed.into_client_header_crypto(&name, key, peer);
            ok &= p == computed && NEW_CALLS.load(Ordering::Relaxed) == 1;
            // the client passes (server seed, own seed)
            ok &= SS.load(Ordering::Relaxed) == peer && CS.load(Ordering::Relaxed) == own && KEY_OK.load(Ordering::Relaxed) == 1;
        }
        ok
    }
    /// C06 (complete over proofs, keys, seeds): Ok iff whole 20-byte equality; Err carries both proofs and no crypto is built;
    /// seeds are passed in the right roles; seed() returns the field; the crypto object is keyed with the presented session key.
    #[kani::proof]
    #[kani::unwind(42)]
    #[kani::stub(crate::vanilla_header::internal::calculate_world_server_proof, proof_stub)]
    #[kani::stub(crate::wrath_header::ServerCrypto::new, new_stub)]
    #[kani::stub(crate::wrath_header::ClientCrypto::new, new_stub_c)]
    pub fn c06_wrath_world_login() { assert!(body(true), "C06 world-login: Ok iff whole-proof equality, Err carries both proofs, seeds in the right roles"); }
    #[kani::proof]
    #[kani::unwind(42)]
    #[kani::stub(crate::vanilla_header::internal::calculate_world_server_proof, proof_stub)]
    #[kani::stub(crate::wrath_header::ServerCrypto::new, new_stub)]
    #[kani::stub(crate::wrath_header::ClientCrypto::new, new_stub_c)]
    pub fn c06_wrath_world_login_cex() { let ok = body(false); kani::cover!(!ok, "counterexample"); }
}

// Bounded native search for C10/C11 (counterexample finder; stand-in when a function leaves the verifiable fragment)
#[cfg(all(test, gtker_wow_srp_verif))]
mod verif_search {
    use super::*;
    struct Rng(u64);
    impl Rng { fn next(&mut self) -> u64 { self.0 ^= self.0 << 13; self.0 ^= self.0 >> 7; self.0 ^= self.0 << 17; self.0 } }
    struct Chunky<'a> { data: &'a [u8], pos: usize, fail_at: usize, rng: u64 }
    impl<'a> std::io::Read for Chunky<'a> {
        fn read(&mut self, buf: &mut [u8]) -> std::io::Result<usize> {
            if self.pos >= self.fail_at { return Err(std::io::Error::from(std::io::ErrorKind::TimedOut)); }
            self.rng ^= self.rng << 13; self.rng ^= self.rng >> 7; self.rng ^= self.rng << 17;
            if self.rng % 5 == 0 { return Err(std::io::Error::from(std::io::ErrorKind::Interrupted)); }
            let n = 1 + (self.rng as usize % buf.len().min(self.fail_at - self.pos).min(self.data.len() - self.pos));
            buf[..n].copy_from_slice(&self.data[self.pos..self.pos + n]); self.pos += n; Ok(n)
        }
    }
    /// mixed sequences of short and long server headers (boundary sizes), decoded through both client paths, with fragmented
    /// reads and interruptions; then a reader failing at the fifth byte of a long header
    #[test]
    fn verif_search_c10_headers() {
        let seed = std::env::var("VERIF_SEED").ok().and_then(|s| s.parse::<u64>().ok()).unwrap_or(0) ^ 0x9E3779B97F4A7C15;
        let mut rng = Rng(seed);
        let sizes = [0u32, 1, 4, 0xFF, 0x100, 0x7FFE, 0x7FFF, 0x8000, 0x8001, 0xFFFF, 0x10000, 0x123456, 0x7FFFFE, 0x7FFFFF];
        let mut n = 0u64;
        for round in 0..60 {
            let mut key = [0u8; 40]; for k in key.iter_mut() { *k = rng.next() as u8; }
            let mut server = ServerCrypto::new(key);
            let mut c1 = ClientCrypto::new(key);
            let mut c2 = ClientCrypto::new(key);
            let mut wire: Vec<u8> = Vec::new();
            let mut hdrs = Vec::new();
            // rounds 0..19: 12 headers; rounds 20..59: 70..140 headers, i.e. 300-700 stream bytes (the RC4 counter wraps several times, with
            // long headers starting at every offset modulo 256 over the rounds)
            let count = if round < 20 { 12 } else { 70 + (rng.next() % 71) as usize };
            for _ in 0..count {
                let size = sizes[(rng.next() % sizes.len() as u64) as usize]; let opcode = rng.next() as u16;
                let h = server.encrypt_server_header(size, opcode).to_vec();
                if h.len() != (if size > 0x7FFF { 5 } else { 4 }) { println!("REPLAY-FAIL c10_headers size={:#x} emitted {} bytes", size, h.len()); return; }
                wire.extend_from_slice(&h); hdrs.push((size, opcode));
            }
            // path 1: attempt + one more byte
            let mut pos = 0;
            for (size, opcode) in hdrs.iter() {
                let mut b = [0u8; 4]; b.copy_from_slice(&wire[pos..pos + 4]); pos += 4;
                let h = match c1.attempt_decrypt_server_header(b) { WrathServerAttempt::Header(h) => h, WrathServerAttempt::AdditionalByteRequired => { pos += 1; c1.decrypt_large_server_header(wire[pos - 1]) } };
                n += 1;
                if h.size != *size || h.opcode != *opcode { println!("REPLAY-FAIL c10_headers two-step path: sent size={:#x} opcode={:#x} decoded size={:#x} opcode={:#x} round={}", size, opcode, h.size, h.opcode, round); return; }
            }
            if pos != wire.len() { println!("REPLAY-FAIL c10_headers two-step path consumed {} of {} bytes", pos, wire.len()); return; }
            // path 2: read-based, fragmented + interrupted
            let mut rd = Chunky { data: &wire, pos: 0, fail_at: wire.len(), rng: rng.next() | 1 };
            for (size, opcode) in hdrs.iter() {
                match c2.read_and_decrypt_server_header(&mut rd) {
                    Ok(h) if h.size == *size && h.opcode == *opcode => {}
                    other => { println!("REPLAY-FAIL c10_headers read path: sent size={:#x} opcode={:#x} got {:?} round={}", size, opcode, other.map(|h| (h.size, h.opcode)).map_err(|e| e.kind()), round); return; }
                }
            }
            if c1 != c2 { println!("REPLAY-FAIL c10_headers the two client paths end in different states"); return; }
            // C11: failure at byte offsets 0..=4 of a long header
            for fail_at in 0..=4usize {
                let mut s2 = ServerCrypto::new(key); let mut c = ClientCrypto::new(key); let mut twin = ClientCrypto::new(key);
                let h = s2.encrypt_server_header(0x12345, 0x4242).to_vec();
                let mut rd = Chunky { data: &h, pos: 0, fail_at, rng: rng.next() | 1 };
                let r = c.read_and_decrypt_server_header(&mut rd);
                n += 1;
                if r.is_ok() { println!("REPLAY-FAIL c11 read succeeded although the reader failed at offset {}", fail_at); return; }
                if fail_at < 4 { if c != twin { println!("REPLAY-FAIL c11 decrypter changed by a read that failed at offset {}", fail_at); return; } }
                else {
                    let mut b = [0u8; 4]; b.copy_from_slice(&h[..4]);
                    let _ = twin.attempt_decrypt_server_header(b);
                    if c != twin { println!("REPLAY-FAIL c11 after a failure at the fifth byte the decrypter is not in the state the 4-byte attempt leaves"); return; }
                    let done = c.decrypt_large_server_header(h[4]);
                    if done.size != 0x12345 || done.opcode != 0x4242 { println!("REPLAY-FAIL c11 supplying the fifth byte later does not complete the header: size={:#x} opcode={:#x}", done.size, done.opcode); return; }
                }
            }
        }
        println!("REPLAY-STATS c10_headers inputs={} all-ok", n);
    }

    // independent reference for C09: HMAC-SHA1 written out over the SHA-1 primitive, textbook RC4, 1024 bytes dropped
    fn ref_sha1(parts: &[&[u8]]) -> [u8; 20] { use sha1::{Digest, Sha1}; let mut h = Sha1::new(); for p in parts { h.update(p); } h.finalize().into() }
    fn ref_hmac_sha1(key: &[u8], msg: &[u8]) -> [u8; 20] {
        let mut k = [0u8; 64];
        if key.len() > 64 { k[..20].copy_from_slice(&ref_sha1(&[key])); } else { k[..key.len()].copy_from_slice(key); }
        let mut ipad = [0x36u8; 64]; let mut opad = [0x5cu8; 64];
        for i in 0..64 { ipad[i] ^= k[i]; opad[i] ^= k[i]; }
        let inner = ref_sha1(&[&ipad, msg]);
        ref_sha1(&[&opad, &inner])
    }
    struct RefRc4 { s: [u8; 256], i: u8, j: u8 }
    impl RefRc4 {
        fn new(key: &[u8]) -> Self {
            let mut s = [0u8; 256]; for i in 0..256 { s[i] = i as u8; }
            let mut j = 0usize; for i in 0..256 { j = (j + s[i] as usize + key[i % key.len()] as usize) % 256; s.swap(i, j); }
            RefRc4 { s, i: 0, j: 0 }
        }
        fn next(&mut self) -> u8 {
            self.i = self.i.wrapping_add(1); self.j = self.j.wrapping_add(self.s[self.i as usize]); self.s.swap(self.i as usize, self.j as usize);
            self.s[self.s[self.i as usize].wrapping_add(self.s[self.j as usize]) as usize]
        }
        fn wrath(constant: &[u8; 16], session_key: &[u8; 40]) -> Self { let mut r = Self::new(&ref_hmac_sha1(constant, session_key)); for _ in 0..1024 { r.next(); } r }
    }
    const REF_C2S: [u8; 16] = [0xC2, 0xB3, 0x72, 0x3C, 0xC6, 0xAE, 0xD9, 0xB5, 0x34, 0x3C, 0x53, 0xEE, 0x2F, 0x43, 0x67, 0xCE];
    const REF_S2C: [u8; 16] = [0xCC, 0x98, 0xAE, 0x04, 0xE8, 0x97, 0xEA, 0xCA, 0x12, 0xDD, 0xC0, 0x93, 0x42, 0x91, 0x53, 0x57];
    /// wire bytes of all four halves against the independent reference, for structured session keys (zero bytes at either end, all-equal
    /// bytes, a single non-zero byte at every position) and random ones; traffic sent in several chunks, beyond 256 bytes
    #[test]
    fn verif_search_c09_wire() {
        let seed = std::env::var("VERIF_SEED").ok().and_then(|s| s.parse::<u64>().ok()).unwrap_or(0) ^ 0x9E3779B97F4A7C15;
        let mut rng = Rng(seed);
        let mut keys: Vec<[u8; 40]> = Vec::new();
        for v in [0u8, 1, 0x7f, 0x80, 0xff] { keys.push([v; 40]); }
        for pos in 0..40 { let mut k = [0u8; 40]; k[pos] = 0xA7; keys.push(k); }
        for zeros in 1..=8 { for tail in [true, false] {
            let mut k = [0u8; 40]; for x in k.iter_mut() { *x = (rng.next() as u8) | 1; }
            for z in 0..zeros { if tail { k[39 - z] = 0; } else { k[z] = 0; } }
            keys.push(k);
        } }
        for _ in 0..40 { let mut k = [0u8; 40]; for x in k.iter_mut() { *x = rng.next() as u8; } keys.push(k); }
        let mut n = 0u64;
        for key in keys.iter() {
            let mut server = ServerCrypto::new(*key);
            let mut client = ClientCrypto::new(*key);
            let mut ref_c2s = RefRc4::wrath(&REF_C2S, key);
            let mut ref_s2c = RefRc4::wrath(&REF_S2C, key);
            let mut ref_c2s_d = RefRc4::wrath(&REF_C2S, key);
            let mut ref_s2c_d = RefRc4::wrath(&REF_S2C, key);
            for len in [1usize, 6, 4, 300, 0, 19] {
                let plain: Vec<u8> = (0..len).map(|_| rng.next() as u8).collect();
                n += 1;
                let mut a = plain.clone(); client.encrypt(&mut a);
                let want: Vec<u8> = plain.iter().map(|b| b ^ ref_c2s.next()).collect();
                if a != want { println!("REPLAY-FAIL c09_wire client->server bytes differ from independent HMAC-SHA1/RC4-drop1024 key={:02x?} chunk_len={}", key, len); return; }
                server.decrypt(&mut a);
                let back: Vec<u8> = want.iter().map(|b| b ^ ref_c2s_d.next()).collect();
                if a != plain || back != plain { println!("REPLAY-FAIL c09_wire server does not recover client->server traffic key={:02x?} chunk_len={}", key, len); return; }
                let mut b = plain.clone(); server.encrypt(&mut b);
                let want: Vec<u8> = plain.iter().map(|x| x ^ ref_s2c.next()).collect();
                if b != want { println!("REPLAY-FAIL c09_wire server->client bytes differ from independent HMAC-SHA1/RC4-drop1024 key={:02x?} chunk_len={}", key, len); return; }
                client.decrypt(&mut b);
                let back: Vec<u8> = want.iter().map(|x| x ^ ref_s2c_d.next()).collect();
                if b != plain || back != plain { println!("REPLAY-FAIL c09_wire client does not recover server->client traffic key={:02x?} chunk_len={}", key, len); return; }
            }
        }
        println!("REPLAY-STATS c09_wire inputs={} all-ok", n);
    }

    // ---- C11 / C12 / C10: every Wrath entry point (combined objects, halves, typed helpers, Read/Write wrappers, clone, split) against the
    // independent RC4-drop1024 reference applied to the header's wire layout
    struct FragReader<'a> { data: &'a [u8], pos: usize, fail_at: Option<usize>, kind: std::io::ErrorKind, rng: u64 }
    impl<'a> std::io::Read for FragReader<'a> {
        fn read(&mut self, buf: &mut [u8]) -> std::io::Result<usize> {
            self.rng ^= self.rng << 13; self.rng ^= self.rng >> 7; self.rng ^= self.rng << 17;
            if self.rng % 4 == 0 { return Err(std::io::Error::from(std::io::ErrorKind::Interrupted)); }
            if let Some(f) = self.fail_at { if self.pos >= f { return Err(std::io::Error::from(self.kind)); } }
            let limit = self.fail_at.unwrap_or(self.data.len()).min(self.data.len());
            let avail = limit - self.pos;
            if avail == 0 || buf.is_empty() { return Ok(0); }
            let n = 1 + (self.rng as usize % avail.min(buf.len()));
            buf[..n].copy_from_slice(&self.data[self.pos..self.pos + n]); self.pos += n; Ok(n)
        }
    }
    struct FragWriter { got: Vec<u8>, fail_at: Option<usize>, kind: std::io::ErrorKind, rng: u64 }
    impl std::io::Write for FragWriter {
        fn write(&mut self, buf: &[u8]) -> std::io::Result<usize> {
            self.rng ^= self.rng << 13; self.rng ^= self.rng >> 7; self.rng ^= self.rng << 17;
            if self.rng % 4 == 0 { return Err(std::io::Error::from(std::io::ErrorKind::Interrupted)); }
            if let Some(f) = self.fail_at { if self.got.len() >= f { return Err(std::io::Error::from(self.kind)); } }
            if buf.is_empty() { return Ok(0); }
            let room = self.fail_at.map(|f| f - self.got.len()).unwrap_or(buf.len()).min(buf.len());
            let n = 1 + (self.rng as usize % room);
            self.got.extend_from_slice(&buf[..n]); Ok(n)
        }
        fn flush(&mut self) -> std::io::Result<()> { Ok(()) }
    }
    const KINDS: [std::io::ErrorKind; 5] = [std::io::ErrorKind::UnexpectedEof, std::io::ErrorKind::TimedOut, std::io::ErrorKind::ConnectionReset, std::io::ErrorKind::BrokenPipe, std::io::ErrorKind::Other];
    enum Cli { Whole(ClientCrypto), Halves(ClientEncrypterHalf, ClientDecrypterHalf) }
    impl Cli {
        fn e(&mut self) -> &mut ClientEncrypterHalf { match self { Cli::Whole(h) => h.encrypter(), Cli::Halves(e, _) => e } }
        fn d(&mut self) -> &mut ClientDecrypterHalf { match self { Cli::Whole(h) => h.decrypter(), Cli::Halves(_, d) => d } }
    }
    enum Srv { Whole(ServerCrypto), Halves(ServerEncrypterHalf, ServerDecrypterHalf) }
    impl Srv {
        fn e(&mut self) -> &mut ServerEncrypterHalf { match self { Srv::Whole(h) => h.encrypter(), Srv::Halves(e, _) => e } }
        fn d(&mut self) -> &mut ServerDecrypterHalf { match self { Srv::Whole(h) => h.decrypter(), Srv::Halves(_, d) => d } }
    }
    fn xor_ref(r: &mut RefRc4, data: &[u8]) -> Vec<u8> { data.iter().map(|b| b ^ r.next()).collect() }
    fn server_layout(size: u32, opcode: u16) -> Vec<u8> {
        if size > 0x7FFF { vec![((size >> 16) as u8) | 0x80, (size >> 8) as u8, size as u8, opcode as u8, (opcode >> 8) as u8] }
        else { vec![(size >> 8) as u8, size as u8, opcode as u8, (opcode >> 8) as u8] }
    }
    fn parse_server(p: &[u8]) -> (u32, u16) {
        if p.len() == 5 { ((((p[0] & 0x7f) as u32) << 16) | ((p[1] as u32) << 8) | p[2] as u32, u16::from_le_bytes([p[3], p[4]])) }
        else { (((p[0] as u32) << 8) | p[1] as u32, u16::from_le_bytes([p[2], p[3]])) }
    }
    #[test]
    fn verif_search_c11_wrath_entry_points() {
        let seed = std::env::var("VERIF_SEED").ok().and_then(|s| s.parse::<u64>().ok()).unwrap_or(0) ^ 0x9E3779B97F4A7C15;
        let mut rng = Rng(seed);
        let mut n = 0u64;
        let sizes = [0u32, 1, 4, 0xff, 0x100, 0x7ffe, 0x7fff, 0x8000, 0x8001, 0xffff, 0x1_0000, 0x12_3456, 0x40_0000, 0x7f_fffe, 0x7f_ffff];
        let csizes = [0u16, 1, 4, 0xff, 0x100, 0x7fff, 0x8000, 0xffff];
        let opcodes = [0u32, 1, 0xff, 0x100, 0xffff, 0x1_0000, 0x8000_0000, 0xffff_ffff, 0x1234_5678];
        macro_rules! fail { ($($a:tt)*) => { { println!("REPLAY-FAIL c11_wrath_entry_points {}", format!($($a)*)); return; } } }
        for session in 0..300u32 {
            let mut sk = [0u8; 40]; for x in sk.iter_mut() { *x = rng.next() as u8; }
            match session { 0 => sk = [0u8; 40], 1 => sk = [0xff; 40], 2 => { for z in 0..8 { sk[39 - z] = 0; } }, 3 => { for z in 0..8 { sk[z] = 0; } }, _ => {} }
            // ---------------- client object: encrypts client->server, decrypts server->client
            let mut re = RefRc4::wrath(&REF_C2S, &sk);
            let mut rd = RefRc4::wrath(&REF_S2C, &sk);
            let mut cli = Cli::Whole(ClientCrypto::new(sk));
            // every other session starts a little before a multiple of 256 keystream bytes, so that the following calls end on / straddle
            // the wrap of the 8-bit RC4 counter with every alignment
            if session % 2 == 1 {
                let warm = 240 + (rng.next() % 16) as usize + 256 * (session as usize % 3);
                let junk: Vec<u8> = (0..warm).map(|_| rng.next() as u8).collect();
                let want = xor_ref(&mut re, &junk); let mut b = junk.clone(); cli.e().encrypt(&mut b);
                if b != want { fail!("client encrypt of a {}-byte warm-up differs from the reference", warm); }
                let want = xor_ref(&mut rd, &junk); let mut b = junk.clone(); cli.d().decrypt(&mut b);
                if b != want { fail!("client decrypt of a {}-byte warm-up differs from the reference", warm); }
            }
            for step in 0..40u32 {
                n += 1;
                let op = rng.next() % 12;
                let via_whole = rng.next() % 2 == 0;
                let size = csizes[(rng.next() % csizes.len() as u64) as usize];
                let opcode = if rng.next() % 3 == 0 { rng.next() as u32 } else { opcodes[(rng.next() % opcodes.len() as u64) as usize] };
                let ch: Vec<u8> = vec![(size >> 8) as u8, size as u8, opcode as u8, (opcode >> 8) as u8, (opcode >> 16) as u8, (opcode >> 24) as u8];
                match op {
                    0 => { let len = (rng.next() % 13) as usize; let plain: Vec<u8> = (0..len).map(|_| rng.next() as u8).collect();
                        let want = xor_ref(&mut re, &plain); let mut buf = plain.clone();
                        match &mut cli { Cli::Whole(h) if via_whole => h.encrypt(&mut buf), _ => cli.e().encrypt(&mut buf) }
                        if buf != want { fail!("client encrypt of a {}-byte chunk differs from the reference (session {}, step {})", len, session, step); } }
                    1 => { let len = (rng.next() % 13) as usize; let wire: Vec<u8> = (0..len).map(|_| rng.next() as u8).collect();
                        let want = xor_ref(&mut rd, &wire); let mut buf = wire.clone();
                        match &mut cli { Cli::Whole(h) if via_whole => h.decrypt(&mut buf), _ => cli.d().decrypt(&mut buf) }
                        if buf != want { fail!("client decrypt of a {}-byte chunk differs from the reference (session {}, step {})", len, session, step); } }
                    2 => { let want = xor_ref(&mut re, &ch);
                        let got = match &mut cli { Cli::Whole(h) if via_whole => h.encrypt_client_header(size, opcode), _ => cli.e().encrypt_client_header(size, opcode) };
                        if got.to_vec() != want { fail!("encrypt_client_header(size={:#x}, opcode={:#x}) != raw encrypt of be16(size) le32(opcode)", size, opcode); } }
                    3 => { let want = xor_ref(&mut re, &ch);
                        let mut w = FragWriter { got: Vec::new(), fail_at: None, kind: std::io::ErrorKind::Other, rng: rng.next() | 1 };
                        let r = match &mut cli { Cli::Whole(h) if via_whole => h.write_encrypted_client_header(&mut w, size, opcode), _ => cli.e().write_encrypted_client_header(&mut w, size, opcode) };
                        if r.is_err() || w.got != want { fail!("write_encrypted_client_header: result {:?}, {} of 6 bytes written / bytes differ", r.map_err(|e| e.kind()), w.got.len()); } }
                    4 | 5 | 6 => { // a server header arrives: random wire bytes decide whether it is a short or a long one
                        let wire: Vec<u8> = (0..5).map(|_| rng.next() as u8).collect();
                        let mut probe = RefRc4 { s: rd.s, i: rd.i, j: rd.j };
                        let p4 = xor_ref(&mut probe, &wire[..4]);
                        let long = p4[0] & 0x80 != 0;
                        let hl = if long { 5 } else { 4 };
                        let plain = xor_ref(&mut rd, &wire[..hl]);
                        let (ws, wo) = parse_server(&plain);
                        let got = if op == 4 {
                            let mut a = [0u8; 4]; a.copy_from_slice(&wire[..4]);
                            let at = match &mut cli { Cli::Whole(h) if via_whole => h.attempt_decrypt_server_header(a), _ => cli.d().attempt_decrypt_server_header(a) };
                            match at {
                                WrathServerAttempt::Header(h) => { if long { fail!("attempt_decrypt_server_header returned a header although the first plaintext byte {:#04x} carries the marker", p4[0]); } h }
                                WrathServerAttempt::AdditionalByteRequired => {
                                    if !long { fail!("attempt_decrypt_server_header asked for a fifth byte although the first plaintext byte {:#04x} has no marker", p4[0]); }
                                    // cloning between the two steps must carry the stashed bytes
                                    if rng.next() % 2 == 0 { cli = match &cli { Cli::Whole(h) => Cli::Whole(h.clone()), Cli::Halves(e, d) => Cli::Halves(e.clone(), d.clone()) }; }
                                    match &mut cli { Cli::Whole(h) if via_whole => h.decrypt_large_server_header(wire[4]), _ => cli.d().decrypt_large_server_header(wire[4]) }
                                }
                            }
                        } else if op == 5 {
                            let mut r = FragReader { data: &wire, pos: 0, fail_at: None, kind: std::io::ErrorKind::Other, rng: rng.next() | 1 };
                            let g = match &mut cli { Cli::Whole(h) if via_whole => h.read_and_decrypt_server_header(&mut r), _ => cli.d().read_and_decrypt_server_header(&mut r) };
                            if r.pos != hl { fail!("read_and_decrypt_server_header consumed {} bytes of a {}-byte header", r.pos, hl); }
                            match g { Ok(h) => h, Err(e) => fail!("read_and_decrypt_server_header failed with {:?} on a complete header", e.kind()) }
                        } else {
                            // the reader fails at the fifth byte of a long header (or delivers a short header completely)
                            let mut r = FragReader { data: &wire, pos: 0, fail_at: Some(4), kind: KINDS[(rng.next() % 5) as usize], rng: rng.next() | 1 };
                            let g = match &mut cli { Cli::Whole(h) if via_whole => h.read_and_decrypt_server_header(&mut r), _ => cli.d().read_and_decrypt_server_header(&mut r) };
                            match (g, long) {
                                (Ok(h), false) => h,
                                (Err(_), true) => match &mut cli { Cli::Whole(h) if via_whole => h.decrypt_large_server_header(wire[4]), _ => cli.d().decrypt_large_server_header(wire[4]) },
                                (Ok(_), true) => fail!("read_and_decrypt_server_header succeeded although the reader failed at the fifth byte of a long header"),
                                (Err(e), false) => fail!("read_and_decrypt_server_header failed with {:?} on a complete short header", e.kind()),
                            }
                        };
                        if got.size != ws || got.opcode != wo { fail!("server header decoded as size={:#x} opcode={:#x}, plaintext {:02x?} means size={:#x} opcode={:#x} (path {})", got.size, got.opcode, plain, ws, wo, op); }
                    }
                    7 => { // reader failing within the first four bytes: error kind preserved, decrypter untouched
                        let wire: Vec<u8> = (0..5).map(|_| rng.next() as u8).collect();
                        let at = (rng.next() % 4) as usize; let kind = KINDS[(rng.next() % 5) as usize];
                        let mut r = FragReader { data: &wire, pos: 0, fail_at: Some(at), kind, rng: rng.next() | 1 };
                        let e = match &mut cli { Cli::Whole(h) if via_whole => h.read_and_decrypt_server_header(&mut r).err(), _ => cli.d().read_and_decrypt_server_header(&mut r).err() };
                        match e { Some(e) if e.kind() == kind => {}, other => fail!("reader failing with {:?} after {} bytes: got {:?}", kind, at, other.map(|e| e.kind())) } }
                    8 => { let at = (rng.next() % 6) as usize; let kind = KINDS[(rng.next() % 5) as usize];
                        let mut w = FragWriter { got: Vec::new(), fail_at: Some(at), kind, rng: rng.next() | 1 };
                        let r = cli.e().write_encrypted_client_header(&mut w, size, opcode);
                        match r { Err(e) if e.kind() == kind => {}, other => fail!("client writer failing with {:?} after {} of 6 bytes: got {:?}", kind, at, other.map_err(|e| e.kind())) }
                        break; }
                    9 => { cli = match &cli { Cli::Whole(h) => Cli::Whole(h.clone()), Cli::Halves(e, d) => Cli::Halves(e.clone(), d.clone()) }; }
                    _ => { cli = match cli { Cli::Whole(h) => { let (e, d) = h.split(); Cli::Halves(e, d) }, o => o }; }
                }
            }
            // ---------------- server object: encrypts server->client, decrypts client->server
            let mut re = RefRc4::wrath(&REF_S2C, &sk);
            let mut rd = RefRc4::wrath(&REF_C2S, &sk);
            let mut srv = Srv::Whole(ServerCrypto::new(sk));
            if session % 2 == 1 {
                let warm = 240 + (rng.next() % 16) as usize + 256 * (session as usize % 3);
                let junk: Vec<u8> = (0..warm).map(|_| rng.next() as u8).collect();
                let want = xor_ref(&mut re, &junk); let mut b = junk.clone(); srv.e().encrypt(&mut b);
                if b != want { fail!("server encrypt of a {}-byte warm-up differs from the reference", warm); }
                let want = xor_ref(&mut rd, &junk); let mut b = junk.clone(); srv.d().decrypt(&mut b);
                if b != want { fail!("server decrypt of a {}-byte warm-up differs from the reference", warm); }
            }
            for step in 0..40u32 {
                n += 1;
                let op = rng.next() % 10;
                let via_whole = rng.next() % 2 == 0;
                let size = sizes[(rng.next() % sizes.len() as u64) as usize];
                let opcode = rng.next() as u16;
                let sh = server_layout(size, opcode);
                match op {
                    0 => { let len = (rng.next() % 13) as usize; let plain: Vec<u8> = (0..len).map(|_| rng.next() as u8).collect();
                        let want = xor_ref(&mut re, &plain); let mut buf = plain.clone();
                        match &mut srv { Srv::Whole(h) if via_whole => h.encrypt(&mut buf), _ => srv.e().encrypt(&mut buf) }
                        if buf != want { fail!("server encrypt of a {}-byte chunk differs from the reference (session {}, step {})", len, session, step); } }
                    1 => { let len = (rng.next() % 13) as usize; let wire: Vec<u8> = (0..len).map(|_| rng.next() as u8).collect();
                        let want = xor_ref(&mut rd, &wire); let mut buf = wire.clone();
                        match &mut srv { Srv::Whole(h) if via_whole => h.decrypt(&mut buf), _ => srv.d().decrypt(&mut buf) }
                        if buf != want { fail!("server decrypt of a {}-byte chunk differs from the reference (session {}, step {})", len, session, step); } }
                    2 => { let want = xor_ref(&mut re, &sh);
                        let got = match &mut srv { Srv::Whole(h) if via_whole => h.encrypt_server_header(size, opcode).to_vec(), _ => srv.e().encrypt_server_header(size, opcode).to_vec() };
                        if got != want { fail!("encrypt_server_header(size={:#x}, opcode={:#x}) gives {} bytes, expected raw encrypt of the {}-byte layout {:02x?}", size, opcode, got.len(), sh.len(), sh); } }
                    3 => { let want = xor_ref(&mut re, &sh);
                        let mut w = FragWriter { got: Vec::new(), fail_at: None, kind: std::io::ErrorKind::Other, rng: rng.next() | 1 };
                        let r = match &mut srv { Srv::Whole(h) if via_whole => h.write_encrypted_server_header(&mut w, size, opcode), _ => srv.e().write_encrypted_server_header(&mut w, size, opcode) };
                        if r.is_err() || w.got != want { fail!("write_encrypted_server_header(size={:#x}): result {:?}, {} of {} bytes written / bytes differ", size, r.map_err(|e| e.kind()), w.got.len(), want.len()); } }
                    4 | 5 => { let wire: Vec<u8> = (0..9).map(|_| rng.next() as u8).collect(); let p = xor_ref(&mut rd, &wire[..6]);
                        let got = if op == 4 { let mut a = [0u8; 6]; a.copy_from_slice(&wire[..6]);
                                match &mut srv { Srv::Whole(h) if via_whole => h.decrypt_client_header(a), _ => srv.d().decrypt_client_header(a) } }
                            else { let mut r = FragReader { data: &wire, pos: 0, fail_at: None, kind: std::io::ErrorKind::Other, rng: rng.next() | 1 };
                                let g = match &mut srv { Srv::Whole(h) if via_whole => h.read_and_decrypt_client_header(&mut r), _ => srv.d().read_and_decrypt_client_header(&mut r) };
                                if r.pos != 6 { fail!("read_and_decrypt_client_header consumed {} bytes instead of 6", r.pos); }
                                match g { Ok(h) => h, Err(e) => fail!("read_and_decrypt_client_header failed with {:?} on a complete header", e.kind()) } };
                        if got.size != u16::from_be_bytes([p[0], p[1]]) || got.opcode != u32::from_le_bytes([p[2], p[3], p[4], p[5]]) { fail!("client header decoded as size={:#x} opcode={:#x} for plaintext {:02x?}", got.size, got.opcode, p); } }
                    6 => { let wire: Vec<u8> = (0..6).map(|_| rng.next() as u8).collect();
                        let at = (rng.next() % 6) as usize; let kind = KINDS[(rng.next() % 5) as usize];
                        let mut r = FragReader { data: &wire, pos: 0, fail_at: Some(at), kind, rng: rng.next() | 1 };
                        let e = match &mut srv { Srv::Whole(h) if via_whole => h.read_and_decrypt_client_header(&mut r).err(), _ => srv.d().read_and_decrypt_client_header(&mut r).err() };
                        match e { Some(e) if e.kind() == kind => {}, other => fail!("server reader failing with {:?} after {} of 6 bytes: got {:?}", kind, at, other.map(|e| e.kind())) } }
                    7 => { let at = (rng.next() % sh.len() as u64) as usize; let kind = KINDS[(rng.next() % 5) as usize];
                        let mut w = FragWriter { got: Vec::new(), fail_at: Some(at), kind, rng: rng.next() | 1 };
                        let r = srv.e().write_encrypted_server_header(&mut w, size, opcode);
                        match r { Err(e) if e.kind() == kind => {}, other => fail!("server writer failing with {:?} after {} of {} bytes: got {:?}", kind, at, sh.len(), other.map_err(|e| e.kind())) }
                        break; }
                    8 => { srv = match &srv { Srv::Whole(h) => Srv::Whole(h.clone()), Srv::Halves(e, d) => Srv::Halves(e.clone(), d.clone()) }; }
                    _ => { srv = match srv { Srv::Whole(h) => { let (e, d) = h.split(); Srv::Halves(e, d) }, o => o }; }
                }
            }
        }
        println!("REPLAY-STATS c11_wrath_entry_points inputs={} all-ok", n);
    }

    /// C06 fallback (bounded): the world-login proof against an independent SHA-1 composition, seeds in their roles, acceptance exactly for
    /// the whole 20-byte proof, both proofs reported on refusal, crypto keyed with the presented session key
    #[test]
    fn verif_search_c06_wrath_world_login() {
        use sha1::{Digest, Sha1};
        let seed = std::env::var("VERIF_SEED").ok().and_then(|s| s.parse::<u64>().ok()).unwrap_or(0) ^ 0x9E3779B97F4A7C15;
        let mut rng = Rng(seed);
        let mut n = 0u64;
        macro_rules! fail { ($($a:tt)*) => { { println!("REPLAY-FAIL c06_wrath_world_login_search {}", format!($($a)*)); return; } } }
        let seeds = [0u32, 1, 0xffff_ffff, 0x0102_0304, 0x8000_0000, 0x0000_ff00];
            for round in 0..150u32 {
                let ulen = match round { 0 => 1, 1 => 16, _ => 1 + (rng.next() % 16) as usize };
                let uname: String = (0..ulen).map(|_| (0x20 + (rng.next() % 0x5f) as u8) as char).collect();
                let user = crate::normalized_string::NormalizedString::new(&uname).unwrap();
                let mut sk = [0u8; 40]; for x in sk.iter_mut() { *x = rng.next() as u8; }
                match round { 2 => sk = [0u8; 40], 3 => { for z in 0..8 { sk[39 - z] = 0; } }, 4 => { for z in 0..8 { sk[z] = 0; } }, _ => {} }
                let cs = if round < 36 { seeds[(round % 6) as usize] } else { rng.next() as u32 };
                let ss = if round < 36 { seeds[(round / 6) as usize] } else { rng.next() as u32 };
                n += 1;
                let want: [u8; 20] = Sha1::new().chain_update(uname.to_ascii_uppercase().as_bytes()).chain_update([0u8; 4]).chain_update(cs.to_le_bytes()).chain_update(ss.to_le_bytes()).chain_update(sk).finalize().into();
                let (cp, mut cc) = ProofSeed::from_specific_seed(cs).into_client_header_crypto(&user, sk, ss);
                if ProofSeed::from_specific_seed(cs).seed() != cs { fail!("{} ProofSeed::seed does not return the seed", "wrath"); }
                if cp != want { fail!("{} client proof is not SHA1(U | 0 | client seed {:#x} | server seed {:#x} | K) user={:?}", "wrath", cs, ss, uname); }
                let mut sc = match ProofSeed::from_specific_seed(ss).into_server_header_crypto(&user, sk, want, cs) { Ok(c) => c, Err(_) => fail!("{} server refused the correct proof (client seed {:#x}, server seed {:#x})", "wrath", cs, ss) };
                for pos in 0..20 { for mask in [0x01u8, 0x80] { let mut bad = want; bad[pos] ^= mask;
                    match ProofSeed::from_specific_seed(ss).into_server_header_crypto(&user, sk, bad, cs) {
                        Ok(_) => fail!("{} server accepted a proof altered in byte {}", "wrath", pos),
                        Err(e) => if e.client_proof != bad || e.server_proof != want { fail!("{} MatchProofsError does not carry (presented, computed) proofs", "wrath"); } } } }
                { let mut bad = want; bad[0] ^= 0x40; bad[19] ^= 0x40; if ProofSeed::from_specific_seed(ss).into_server_header_crypto(&user, sk, bad, cs).is_ok() { fail!("{} server accepted a proof altered in two bytes by the same mask", "wrath"); } }
                // the two objects are keyed alike: traffic round-trips in both directions
                let plain: Vec<u8> = (0..23).map(|_| rng.next() as u8).collect();
                let mut w = plain.clone(); cc.encrypt(&mut w); sc.decrypt(&mut w); if w != plain { fail!("{} client->server traffic does not round-trip after the world login", "wrath"); }
                let mut w = plain.clone(); sc.encrypt(&mut w); cc.decrypt(&mut w); if w != plain { fail!("{} server->client traffic does not round-trip after the world login", "wrath"); }
                // and with the presented session key: a peer keyed with a key differing in one byte does not decrypt it
                let mut other = sk; other[(round % 40) as usize] ^= 0x20;
                let (_, mut oc) = ProofSeed::from_specific_seed(cs).into_client_header_crypto(&user, other, ss);
                let mut a = vec![0u8; 64]; let mut b = vec![0u8; 64]; cc.encrypt(&mut a); oc.encrypt(&mut b);
                if a == b { fail!("{} crypto objects for session keys differing in byte {} produce the same 64 bytes", "wrath", round % 40); }
            }
        println!("REPLAY-STATS c06_wrath_world_login_search inputs={} all-ok", n);
    }
}
