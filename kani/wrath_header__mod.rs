// Appended (add-only) to src/wrath_header/mod.rs of the scratch copy.
#[cfg(kani)]
pub mod verif_kani {
    use super::*;
    use crate::rc4::verif_kani::{verif_rc4, verif_rc4_parts};
    use super::inner_crypto::verif_kani::{verif_inner, verif_inner_rc4};
    use super::encrypt::verif_kani::{verif_server_enc, verif_server_enc_inner};
    use super::decrypt::verif_kani::{verif_client_dec, verif_client_dec_parts};

    // InnerCrypto::apply replaced by its (Verus-proved) contract: XOR with the next bytes of *some* keystream and advance by the
    // number of bytes. The keystream is an unconstrained 16-byte array; the position lives in the Rc4 counter `i`.
    use core::sync::atomic::{AtomicU8, Ordering};
    static KS: [AtomicU8; 16] = [const { AtomicU8::new(0) }; 16];
    pub fn apply_stub(c: &mut InnerCrypto, data: &mut [u8]) {
        let (st, i, j) = { let (s, i, j) = verif_rc4_parts(verif_inner_rc4(c)); (*s, i, j) };
        let mut pos = i;
        let mut k = 0;
        while k < data.len() { data[k] ^= KS[(pos & 15) as usize].load(Ordering::Relaxed); pos = pos.wrapping_add(1); k += 1; }
        *c = verif_inner(verif_rc4(st, pos, j));
    }
    fn any_keystream() { let ks: [u8; 16] = kani::any(); let mut k = 0; while k < 16 { KS[k].store(ks[k], Ordering::Relaxed); k += 1; } }
    use super::inner_crypto::InnerCrypto;

    /// with InnerCrypto::apply replaced by the keystream stub the cipher state is just the keystream position (kept in `i`)
    fn same_rc4(a: &crate::rc4::Rc4, b: &crate::rc4::Rc4) -> bool {
        let (_sa, ia, ja) = verif_rc4_parts(a);
        let (_sb, ib, jb) = verif_rc4_parts(b);
        ia == ib && ja == jb
    }

    /// a reader that can deliver only the first `avail` bytes of `data` and then fails with an arbitrary error kind
    pub struct FaultyReader { pub data: [u8; 8], pub pos: usize, pub avail: usize }
    impl std::io::Read for FaultyReader {
        fn read(&mut self, buf: &mut [u8]) -> std::io::Result<usize> {
            if self.pos >= self.avail { return Err(std::io::Error::from(std::io::ErrorKind::ConnectionReset)); }
            // arbitrary fragmentation: hand out at least one byte
            let mut n: usize = kani::any();
            kani::assume(n >= 1 && n <= buf.len() && n <= self.avail - self.pos);
            let mut k = 0;
            while k < n { buf[k] = self.data[self.pos + k]; k += 1; }
            self.pos += n;
            Ok(n)
        }
    }

    /// C10 (complete: every keystream [InnerCrypto::apply replaced by its proved contract], every size <= 0x7FFFFF, every opcode): the server header of either length is decoded by both
    /// client paths to the same size and opcode, both ends consume the same number of keystream bytes.
    #[kani::proof]
    #[kani::unwind(18)]
    #[kani::stub(crate::wrath_header::inner_crypto::InnerCrypto::apply, apply_stub)]
    pub fn c10_server_header_roundtrip() {
        any_keystream();
        let state: [u8; 256] = [0; 256];
        let i0: u8 = kani::any(); kani::assume(i0 < 8); let j0: u8 = 0;
        let size: u32 = kani::any(); kani::assume(size <= 0x7FFFFF);
        let opcode: u16 = kani::any();
        let stash: [u8; 4] = kani::any();
        let mut srv = verif_server_enc(verif_inner(verif_rc4(state, i0, j0)));
        let mut wire = [0u8; 8];
        let n;
        {
            let h = srv.encrypt_server_header(size, opcode);
            n = h.len();
            let mut k = 0;
            while k < 5 { if k < n { wire[k] = h[k]; } k += 1; }
        }
        let mut ok = n == (if size > 0x7FFF { 5 } else { 4 });
        // path 1: attempt, then one more byte
        let mut c1 = verif_client_dec(verif_inner(verif_rc4(state, i0, j0)), stash);
        let got = match c1.attempt_decrypt_server_header([wire[0], wire[1], wire[2], wire[3]]) {
            WrathServerAttempt::Header(h) => { ok &= n == 4; h }
            WrathServerAttempt::AdditionalByteRequired => { ok &= n == 5; c1.decrypt_large_server_header(wire[4]) }
        };
        ok &= got.size == size && got.opcode == opcode;
        ok &= same_rc4(verif_inner_rc4(verif_client_dec_parts(&c1).0), verif_inner_rc4(verif_server_enc_inner(&srv)));
        // path 2: read-based call, bytes delivered in arbitrary fragments
        let mut c2 = verif_client_dec(verif_inner(verif_rc4(state, i0, j0)), stash);
        let mut rd = FaultyReader { data: wire, pos: 0, avail: n };
        match c2.read_and_decrypt_server_header(&mut rd) {
            Ok(h) => { ok &= h.size == size && h.opcode == opcode && rd.pos == n; }
            Err(_) => { ok = false; }
        }
        ok &= same_rc4(verif_inner_rc4(verif_client_dec_parts(&c2).0), verif_inner_rc4(verif_server_enc_inner(&srv)));
        kani::cover!(size == 0x8000);
        kani::cover!(size == 0x7FFF);
        assert!(ok, "C10 wrath server header round trip on both client paths");
    }

    /// C11 (complete over keystreams/headers/fault offsets 0..=4; InnerCrypto::apply replaced by its proved contract): a reader failing before the header is complete gives Err and leaves
    /// the decrypter untouched (offsets 0..3) or exactly as after the 4-byte attempt (offset 4 of a long header), so that the
    /// missing byte supplied later completes the header.
    #[kani::proof]
    #[kani::unwind(18)]
    #[kani::stub(crate::wrath_header::inner_crypto::InnerCrypto::apply, apply_stub)]
    pub fn c11_wrath_read_fault() {
        any_keystream();
        let state: [u8; 256] = [0; 256];
        let i0: u8 = kani::any(); kani::assume(i0 < 8); let j0: u8 = 0;
        let size: u32 = kani::any(); kani::assume(size > 0x7FFF && size <= 0x7FFFFF);
        let opcode: u16 = kani::any();
        let stash: [u8; 4] = kani::any();
        let avail: usize = kani::any(); kani::assume(avail <= 4);
        let mut srv = verif_server_enc(verif_inner(verif_rc4(state, i0, j0)));
        let mut wire = [0u8; 8];
        { let h = srv.encrypt_server_header(size, opcode); let mut k = 0; while k < 5 { wire[k] = h[k]; k += 1; } }
        let mut c = verif_client_dec(verif_inner(verif_rc4(state, i0, j0)), stash);
        let mut rd = FaultyReader { data: wire, pos: 0, avail };
        let r = c.read_and_decrypt_server_header(&mut rd);
        let mut ok = r.is_err();
        if avail < 4 {
            let fresh = verif_rc4(state, i0, j0);
            ok &= same_rc4(verif_inner_rc4(verif_client_dec_parts(&c).0), &fresh) && verif_client_dec_parts(&c).1 == stash;
        } else {
            let mut twin = verif_client_dec(verif_inner(verif_rc4(state, i0, j0)), stash);
            let _ = twin.attempt_decrypt_server_header([wire[0], wire[1], wire[2], wire[3]]);
            ok &= same_rc4(verif_inner_rc4(verif_client_dec_parts(&c).0), verif_inner_rc4(verif_client_dec_parts(&twin).0));
            ok &= verif_client_dec_parts(&c).1 == verif_client_dec_parts(&twin).1;
            let h = c.decrypt_large_server_header(wire[4]);
            ok &= h.size == size && h.opcode == opcode;
        }
        kani::cover!(avail == 4);
        kani::cover!(avail == 0);
        assert!(ok, "C11 failed read leaves the Wrath client decrypter untouched / as after the 4-byte attempt");
    }
}

// ---- C06: world-login glue of this module (proof function and key setup replaced by recording stubs = their proved contracts)
#[cfg(kani)]
pub mod verif_kani_c06 {
    use super::*;
    #[allow(unused_imports)] use crate::key::{Proof, SessionKey}; #[allow(unused_imports)] use crate::normalized_string::NormalizedString; #[allow(unused_imports)] use crate::error::MatchProofsError;
    use core::sync::atomic::{AtomicU8, AtomicU32, AtomicUsize, Ordering};
    use crate::normalized_string::verif_kani::verif_make;
    static P: [AtomicU8; 20] = [const { AtomicU8::new(0) }; 20];
    static SS: AtomicU32 = AtomicU32::new(0);
    static CS: AtomicU32 = AtomicU32::new(0);
    static KEY_OK: AtomicUsize = AtomicUsize::new(0);
    static K: [AtomicU8; 40] = [const { AtomicU8::new(0) }; 40];
    static NEW_CALLS: AtomicUsize = AtomicUsize::new(0);
    fn proof_stub(_u: &NormalizedString, k: &SessionKey, server_seed: u32, client_seed: u32) -> Proof {
        SS.store(server_seed, Ordering::Relaxed); CS.store(client_seed, Ordering::Relaxed);
        let mut same = true; let mut i = 0; while i < 40 { same &= k.as_le_bytes()[i] == K[i].load(Ordering::Relaxed); i += 1; }
        KEY_OK.store(same as usize, Ordering::Relaxed);
        let mut p = [0u8; 20]; i = 0; while i < 20 { p[i] = P[i].load(Ordering::Relaxed); i += 1; } Proof::from_le_bytes(p)
    }
    fn new_stub(k: [u8; 40]) -> ServerCrypto {
        let mut same = true; let mut i = 0; while i < 40 { same &= k[i] == K[i].load(Ordering::Relaxed); i += 1; }
        NEW_CALLS.store(if same { 1 } else { 2 }, Ordering::Relaxed);
        { use crate::rc4::verif_kani::verif_rc4; use super::inner_crypto::verif_kani::verif_inner; ServerCrypto { decrypt: super::decrypt::verif_kani::verif_server_dec(verif_inner(verif_rc4([0; 256], 0, 0))), encrypt: super::encrypt::verif_kani::verif_server_enc(verif_inner(verif_rc4([0; 256], 0, 0))) } }
    }
    fn new_stub_c(k: [u8; 40]) -> ClientCrypto {
        let mut same = true; let mut i = 0; while i < 40 { same &= k[i] == K[i].load(Ordering::Relaxed); i += 1; }
        NEW_CALLS.store(if same { 1 } else { 2 }, Ordering::Relaxed);
        { use crate::rc4::verif_kani::verif_rc4; use super::inner_crypto::verif_kani::verif_inner; ClientCrypto { decrypt: super::decrypt::verif_kani::verif_client_dec(verif_inner(verif_rc4([0; 256], 0, 0)), [0; 4]), encrypt: super::encrypt::verif_kani::verif_client_enc(verif_inner(verif_rc4([0; 256], 0, 0))) } }
    }
    fn body(with_covers: bool) -> bool {
        let name = verif_make(kani::any(), kani::any());
        let key: [u8; 40] = kani::any(); let computed: [u8; 20] = kani::any(); let presented: [u8; 20] = kani::any();
        let own: u32 = kani::any(); let peer: u32 = kani::any();
        let mut i = 0; while i < 20 { P[i].store(computed[i], Ordering::Relaxed); i += 1; }
        i = 0; while i < 40 { K[i].store(key[i], Ordering::Relaxed); i += 1; }
        let seed = ProofSeed { seed: own };
        let mut ok = seed.seed() == own;
        let server: bool = kani::any();
        if server {
            let mut same = true; i = 0; while i < 20 { if presented[i] != computed[i] { same = false; } i += 1; }
            match seed.into_server_header_crypto(&name, key, presented, peer) {
                Ok(_) => { ok &= same && NEW_CALLS.load(Ordering::Relaxed) == 1; }
                Err(e) => { ok &= !same && e.client_proof == presented && e.server_proof == computed && NEW_CALLS.load(Ordering::Relaxed) == 0; }
            }
            // the server passes (own seed, client seed)
            ok &= SS.load(Ordering::Relaxed) == own && CS.load(Ordering::Relaxed) == peer && KEY_OK.load(Ordering::Relaxed) == 1;
            if with_covers { kani::cover!(same); kani::cover!(!same); }
        } else {
            let (p, _c) = seed.into_client_header_crypto(&name, key, peer);
            ok &= p == computed && NEW_CALLS.load(Ordering::Relaxed) == 1;
            // the client passes (server seed, own seed)
            ok &= SS.load(Ordering::Relaxed) == peer && CS.load(Ordering::Relaxed) == own && KEY_OK.load(Ordering::Relaxed) == 1;
        }
        ok
    }
    /// C06 (complete over proofs, keys, seeds): Ok iff whole 20-byte equality; Err carries both proofs and no crypto is built;
    /// seeds are passed in the right roles; seed() returns the field; the crypto object is keyed with the presented session key.
    #[kani::proof]
    #[kani::unwind(42)]
    #[kani::stub(crate::vanilla_header::internal::calculate_world_server_proof, proof_stub)]
    #[kani::stub(crate::wrath_header::ServerCrypto::new, new_stub)]
    #[kani::stub(crate::wrath_header::ClientCrypto::new, new_stub_c)]
    pub fn c06_wrath_world_login() { assert!(body(true), "C06 world-login: Ok iff whole-proof equality, Err carries both proofs, seeds in the right roles"); }
    #[kani::proof]
    #[kani::unwind(42)]
    #[kani::stub(crate::vanilla_header::internal::calculate_world_server_proof, proof_stub)]
    #[kani::stub(crate::wrath_header::ServerCrypto::new, new_stub)]
    #[kani::stub(crate::wrath_header::ClientCrypto::new, new_stub_c)]
    pub fn c06_wrath_world_login_cex() { let ok = body(false); kani::cover!(!ok, "counterexample"); }
}

// Bounded native search for C10/C11 (counterexample finder; stand-in when a function leaves the verifiable fragment)
#[cfg(all(test, gtker_wow_srp_verif))]
mod verif_search {
    use super::*;
    struct Rng(u64);
    impl Rng { fn next(&mut self) -> u64 { self.0 ^= self.0 << 13; self.0 ^= self.0 >> 7; self.0 ^= self.0 << 17; self.0 } }
    struct Chunky<'a> { data: &'a [u8], pos: usize, fail_at: usize, rng: u64 }
    impl<'a> std::io::Read for Chunky<'a> {
        fn read(&mut self, buf: &mut [u8]) -> std::io::Result<usize> {
            if self.pos >= self.fail_at { return Err(std::io::Error::from(std::io::ErrorKind::TimedOut)); }
            self.rng ^= self.rng << 13; self.rng ^= self.rng >> 7; self.rng ^= self.rng << 17;
            if self.rng % 5 == 0 { return Err(std::io::Error::from(std::io::ErrorKind::Interrupted)); }
            let n = 1 + (self.rng as usize % buf.len().min(self.fail_at - self.pos).min(self.data.len() - self.pos));
            buf[..n].copy_from_slice(&self.data[self.pos..self.pos + n]); self.pos += n; Ok(n)
        }
    }
    /// mixed sequences of short and long server headers (boundary sizes), decoded through both client paths, with fragmented
    /// reads and interruptions; then a reader failing at the fifth byte of a long header
    #[test]
    fn verif_search_c10_headers() {
        let seed = std::env::var("VERIF_SEED").ok().and_then(|s| s.parse::<u64>().ok()).unwrap_or(0) ^ 0x9E3779B97F4A7C15;
        let mut rng = Rng(seed);
        let sizes = [0u32, 1, 4, 0xFF, 0x100, 0x7FFE, 0x7FFF, 0x8000, 0x8001, 0xFFFF, 0x10000, 0x123456, 0x7FFFFE, 0x7FFFFF];
        let mut n = 0u64;
        for round in 0..60 {
            let mut key = [0u8; 40]; for k in key.iter_mut() { *k = rng.next() as u8; }
            let mut server = ServerCrypto::new(key);
            let mut c1 = ClientCrypto::new(key);
            let mut c2 = ClientCrypto::new(key);
            let mut wire: Vec<u8> = Vec::new();
            let mut hdrs = Vec::new();
            for _ in 0..12 {
                let size = sizes[(rng.next() % sizes.len() as u64) as usize]; let opcode = rng.next() as u16;
                let h = server.encrypt_server_header(size, opcode).to_vec();
                if h.len() != (if size > 0x7FFF { 5 } else { 4 }) { println!("REPLAY-FAIL c10_headers size={:#x} emitted {} bytes", size, h.len()); return; }
                wire.extend_from_slice(&h); hdrs.push((size, opcode));
            }
            // path 1: attempt + one more byte
            let mut pos = 0;
            for (size, opcode) in hdrs.iter() {
                let mut b = [0u8; 4]; b.copy_from_slice(&wire[pos..pos + 4]); pos += 4;
                let h = match c1.attempt_decrypt_server_header(b) { WrathServerAttempt::Header(h) => h, WrathServerAttempt::AdditionalByteRequired => { pos += 1; c1.decrypt_large_server_header(wire[pos - 1]) } };
                n += 1;
                if h.size != *size || h.opcode != *opcode { println!("REPLAY-FAIL c10_headers two-step path: sent size={:#x} opcode={:#x} decoded size={:#x} opcode={:#x} round={}", size, opcode, h.size, h.opcode, round); return; }
            }
            if pos != wire.len() { println!("REPLAY-FAIL c10_headers two-step path consumed {} of {} bytes", pos, wire.len()); return; }
            // path 2: read-based, fragmented + interrupted
            let mut rd = Chunky { data: &wire, pos: 0, fail_at: wire.len(), rng: rng.next() | 1 };
            for (size, opcode) in hdrs.iter() {
                match c2.read_and_decrypt_server_header(&mut rd) {
                    Ok(h) if h.size == *size && h.opcode == *opcode => {}
                    other => { println!("REPLAY-FAIL c10_headers read path: sent size={:#x} opcode={:#x} got {:?} round={}", size, opcode, other.map(|h| (h.size, h.opcode)).map_err(|e| e.kind()), round); return; }
                }
            }
            if c1 != c2 { println!("REPLAY-FAIL c10_headers the two client paths end in different states"); return; }
            // C11: failure at byte offsets 0..=4 of a long header
            for fail_at in 0..=4usize {
                let mut s2 = ServerCrypto::new(key); let mut c = ClientCrypto::new(key); let mut twin = ClientCrypto::new(key);
                let h = s2.encrypt_server_header(0x12345, 0x4242).to_vec();
                let mut rd = Chunky { data: &h, pos: 0, fail_at, rng: rng.next() | 1 };
                let r = c.read_and_decrypt_server_header(&mut rd);
                n += 1;
                if r.is_ok() { println!("REPLAY-FAIL c11 read succeeded although the reader failed at offset {}", fail_at); return; }
                if fail_at < 4 { if c != twin { println!("REPLAY-FAIL c11 decrypter changed by a read that failed at offset {}", fail_at); return; } }
                else {
                    let mut b = [0u8; 4]; b.copy_from_slice(&h[..4]);
                    let _ = twin.attempt_decrypt_server_header(b);
                    if c != twin { println!("REPLAY-FAIL c11 after a failure at the fifth byte the decrypter is not in the state the 4-byte attempt leaves"); return; }
                    let done = c.decrypt_large_server_header(h[4]);
                    if done.size != 0x12345 || done.opcode != 0x4242 { println!("REPLAY-FAIL c11 supplying the fifth byte later does not complete the header: size={:#x} opcode={:#x}", done.size, done.opcode); return; }
                }
            }
        }
        println!("REPLAY-STATS c10_headers inputs={} all-ok", n);
    }
}
