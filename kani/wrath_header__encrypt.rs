// Appended (add-only) to src/wrath_header/encrypt.rs of the scratch copy.
#[cfg(kani)]
pub mod verif_kani {
    use super::*;
    pub fn verif_server_enc(c: InnerCrypto) -> ServerEncrypterHalf { ServerEncrypterHalf { encrypt: c, server_header: [0; SERVER_HEADER_MAXIMUM_LENGTH as usize] } }
    pub fn verif_client_enc(c: InnerCrypto) -> ClientEncrypterHalf { ClientEncrypterHalf { encrypt: c } }
    pub fn verif_server_enc_inner(h: &ServerEncrypterHalf) -> &InnerCrypto { &h.encrypt }
}
